#!/bin/sh
# Runs the repository's test suite with the hook guard off and compares against
# BASELINE.json's stable_pass list: prints the number of baseline tests not passing.
out=$(mktemp -d)
cd /repo && env -u DATAITER_VERIF /venv/bin/python -m pytest -q -p no:cacheprovider --timeout=900 --continue-on-collection-errors --junitxml=$out/j.xml >$out/log 2>&1
/venv/bin/python - "$out/j.xml" <<'PY'
import json, sys, xml.etree.ElementTree as ET
base = json.load(open('/root/.vp/BASELINE.json'))
sp = base['stable_pass']
if isinstance(sp, str):
    import ast; sp = ast.literal_eval(sp)
passed = set()
for tc in ET.parse(sys.argv[1]).getroot().iter('testcase'):
    if not any(c.tag in ('failure', 'error', 'skipped') for c in tc):
        passed.add(tc.get('classname') + '::' + tc.get('name'))
missing = [t for t in sp if t not in passed]
print(f"baseline stable_pass={len(sp)} passed_now={len(passed)} baseline_missing={len(missing)}")
for t in missing[:20]:
    print("  MISSING", t)
sys.exit(1 if missing else 0)
PY
rc=$?
rm -rf "$out"
exit $rc
