------------------------------ MODULE LoDSMTrace ------------------------------
(* Monitor-style validation of ListOfDicts histories recorded from the real class.
   Every step: compute what LoDSM allows from the state before the call, compare with the
   observation (all lists' item ids, every item's contents, every list's obsolete flag, the number
   of warning lines printed), name the failing clause, adopt the observation, go on.            *)
EXTENDS LoDSM, TLC, Json, IOUtils
VARIABLES tid, l, st, bad
T == JsonDeserialize(IOEnv.TRACE_FILE)

InitState(tr) == [items |-> tr.init.items, hp |-> [i \in DOMAIN tr.init.items |-> 1],
                  lists |-> [i \in DOMAIN tr.init.lists |-> NewList(tr.init.lists[i], {}, {})]]

IsSubSeqOf(s, t) ==      \* s is an order-preserving sub-list of t (by positions)
  \E f \in [DOMAIN s -> DOMAIN t] : (\A i, j \in DOMAIN s : i < j => f[i] < f[j]) /\ \A i \in DOMAIN s : t[f[i]] = s[i]

Expected(s, e) ==
  IF e.a.op = "sample"
  THEN [items |-> s.items, hp |-> s.hp,
        lists |-> Append(s.lists, NewList(e.obs.lists[Len(e.obs.lists)].its, {e.x}, {e.x}))]
  ELSE Step(s, e)

(* a temporary of a method chain that nothing keeps alive any more cannot be observed: its flag is not judged *)
Gone(o) == "gone" \in DOMAIN o /\ o.gone
WarnClause(s, e) ==
  IF e.obs.warn # (IF s.lists[e.x].oflag /\ ~s.lists[e.x].warned THEN 1 ELSE 0)
  THEN "SM:warning-not-printed-exactly-once-on-next-use" ELSE ""
ReaderClause(s, e) ==
  LET obs == e.obs  op == e.a.op  n == Len(s.lists) IN
  IF obs.err # "" THEN "SM:raised:" \o op
  ELSE IF Len(obs.lists) # n THEN "SM:reader-created-a-list:" \o op
  ELSE IF \E i \in 1..n : obs.lists[i].its # s.lists[i].its THEN "SM:an-existing-list-changed-its-items:" \o op
  ELSE IF obs.items # s.items THEN "SM:non-modifying-method-changed-an-item:" \o op
  ELSE IF \E i \in 1..n : s.lists[i].flag = "yes" /\ ~obs.lists[i].ob THEN "SM:must-report-obsolete-but-does-not:" \o op
  ELSE IF \E i \in 1..n : s.lists[i].flag = "no" /\ obs.lists[i].ob THEN "SM:must-not-report-obsolete-but-does:" \o op
  ELSE IF ~ReaderOK(s, e, obs.ret) THEN "SM:reader-result-not-a-function-of-the-current-items:" \o op
  ELSE WarnClause(s, e)

PokedId(s, e) == s.lists[e.x].its[e.a.i + 1]
PokeClause(s, e) ==
  LET exp == Step(s, e)  obs == e.obs  n == Len(s.lists) IN
  IF obs.err # "" THEN "SM:raised:poke"
  ELSE IF Len(obs.lists) # n \/ \E i \in 1..n : obs.lists[i].its # s.lists[i].its THEN "SM:an-existing-list-changed-its-items:poke"
  ELSE IF Len(obs.items) # Len(s.items) \/ ~Has(obs.items[PokedId(s, e)], "b") \/ obs.items[PokedId(s, e)]["b"] # e.a.v
       THEN "SM:assignment-into-an-item-not-stored"      \* (other keys of the same dict may hold the same container: judged below)
  ELSE IF \E j \in DOMAIN s.items : s.hp[j] # s.hp[PokedId(s, e)] /\ obs.items[j] # s.items[j]
       THEN "SM:assignment-into-one-item-observable-through-an-item-of-another-heap(deepcopy-not-isolated)"
  ELSE IF \E j \in DOMAIN s.items : \/ DOMAIN obs.items[j] # DOMAIN exp.items[j]      \* same heap: a shared container may show the new value
                                    \/ \E k \in DOMAIN obs.items[j] : obs.items[j][k] \notin {exp.items[j][k], e.a.v}
       THEN "SM:assignment-into-one-item-changed-something-else"
  ELSE IF \E i \in 1..n : s.lists[i].flag = "yes" /\ ~obs.lists[i].ob THEN "SM:must-report-obsolete-but-does-not:poke"
  ELSE IF \E i \in 1..n : s.lists[i].flag = "no" /\ obs.lists[i].ob THEN "SM:must-not-report-obsolete-but-does:poke"
  ELSE ""

Clause(s, e) ==
  LET exp == Expected(s, e)  obs == e.obs  op == e.a.op  n == Len(s.lists) IN
  IF op = "poke" THEN PokeClause(s, e)
  ELSE IF op \in Readers THEN ReaderClause(s, e)
  ELSE IF obs.err # "" THEN "SM:raised:" \o op
  ELSE IF Len(obs.lists) # Len(exp.lists) THEN "SM:no-new-list:" \o op
  ELSE IF "fresh" \in DOMAIN obs /\ ~obs.fresh THEN "SM:result-is-an-existing-list-object-not-a-new-list:" \o op
  ELSE IF op = "sample" /\ ~(IsSubSeqOf(obs.lists[n + 1].its, s.lists[e.x].its)
                             /\ Len(obs.lists[n + 1].its) = Min2(e.a.n, Len(s.lists[e.x].its)))
       THEN "SM:sample-not-an-ordered-sublist-of-min(n,len)-items"
  ELSE IF \E i \in 1..n : obs.lists[i].its # exp.lists[i].its THEN "SM:an-existing-list-changed-its-items:" \o op
  ELSE IF obs.lists[n + 1].its # exp.lists[n + 1].its THEN "SM:result-holds-wrong-item-objects:" \o op
  ELSE IF obs.items # exp.items THEN
       (IF op \in NonModifying THEN "SM:non-modifying-method-changed-an-item:" \o op
        ELSE "SM:editor-changed-items-other-than-as-documented:" \o op)
  ELSE IF \E i \in DOMAIN exp.lists : exp.lists[i].flag = "yes" /\ ~obs.lists[i].ob /\ ~Gone(obs.lists[i])
       THEN "SM:must-report-obsolete-but-does-not:" \o op
  ELSE IF \E i \in DOMAIN exp.lists : exp.lists[i].flag = "no" /\ obs.lists[i].ob /\ ~Gone(obs.lists[i])
       THEN "SM:must-not-report-obsolete-but-does:" \o op
  ELSE WarnClause(s, e)

(* adopt the observation (so that the rest of the trace is still examined) *)
Adopt(s, e) ==
  LET exp == Expected(s, e)  obs == e.obs IN
  IF obs.err # "" \/ Len(obs.lists) # Len(exp.lists) THEN s
  ELSE [items |-> obs.items, hp |-> IF Len(exp.hp) = Len(obs.items) THEN exp.hp ELSE [i \in DOMAIN obs.items |-> 1],
        lists |-> [i \in DOMAIN exp.lists |->
                     [exp.lists[i] EXCEPT !.its = obs.lists[i].its,
                                          !.oflag = obs.lists[i].ob,
                                          !.warned = IF i = e.x /\ e.a.op # "poke" THEN (exp.lists[i].warned \/ s.lists[e.x].oflag)
                                                     ELSE exp.lists[i].warned]]]

Init == tid = 0 /\ l = 0 /\ st = [items |-> <<>>, hp |-> <<>>, lists |-> <<>>] /\ bad = ""
Pick == /\ tid = 0 /\ \E t \in 1..Len(T) : tid' = t /\ st' = InitState(T[t])
        /\ l' = 1 /\ bad' = ""
Next1 == /\ tid > 0 /\ l >= 1 /\ l <= Len(T[tid].steps)
         /\ LET e == T[tid].steps[l] IN
              IF ~EventOK(st, e) THEN
                   \* outside the supported inputs (e.g. a key missing from some item): the result is not judged and the
                   \* history ends here - but a non-modifying method leaves every item as it was even then
                   LET v == IF e.a.op \in NonModifying /\ Len(e.obs.items) >= Len(st.items)
                                /\ SubSeq(e.obs.items, 1, Len(st.items)) # st.items
                            THEN "SM:non-modifying-method-changed-an-item:" \o e.a.op ELSE "" IN
                   /\ bad' = v /\ st' = st
                   /\ (v # "" => PrintT(ToJson([BAD |-> v, tid |-> tid, step |-> l])))
              ELSE LET v == Clause(st, e) IN
                   /\ bad' = v
                   /\ (v # "" => PrintT(ToJson([BAD |-> v, tid |-> tid, step |-> l])))
                   /\ st' = Adopt(st, e)
         /\ l' = IF EventOK(st, T[tid].steps[l]) THEN l + 1 ELSE Len(T[tid].steps) + 1
         /\ UNCHANGED tid
Next == Pick \/ Next1
Spec == Init /\ [][Next]_<<tid, l, st, bad>>
Accepted == bad = ""
StateOK == tid > 0 => ListsWF(st)
=============================================================================
