------------------------------ MODULE LoDSMTrace ------------------------------
(* Monitor-style validation of ListOfDicts histories recorded from the real class.
   Every step: compute what LoDSM allows from the state before the call, compare with the
   observation (all lists' item ids, every item's contents, every list's obsolete flag, the number
   of warning lines printed), name the failing clause, adopt the observation, go on.            *)
EXTENDS LoDSM, TLC, Json, IOUtils
VARIABLES tid, l, st, bad
T == JsonDeserialize(IOEnv.TRACE_FILE)

InitState(tr) == [items |-> tr.init.items,
                  lists |-> [i \in DOMAIN tr.init.lists |-> NewList(tr.init.lists[i], {}, {})]]

IsSubSeqOf(s, t) ==      \* s is an order-preserving sub-list of t (by positions)
  \E f \in [DOMAIN s -> DOMAIN t] : (\A i, j \in DOMAIN s : i < j => f[i] < f[j]) /\ \A i \in DOMAIN s : t[f[i]] = s[i]

Expected(s, e) ==
  IF e.a.op = "sample"
  THEN [items |-> s.items,
        lists |-> Append(s.lists, NewList(e.obs.lists[Len(e.obs.lists)].its, {e.x}, {e.x}))]
  ELSE Step(s, e)

Clause(s, e) ==
  LET exp == Expected(s, e)  obs == e.obs  op == e.a.op  n == Len(s.lists) IN
  IF obs.err # "" THEN "SM:raised:" \o op
  ELSE IF Len(obs.lists) # Len(exp.lists) THEN "SM:no-new-list:" \o op
  ELSE IF op = "sample" /\ ~(IsSubSeqOf(obs.lists[n + 1].its, s.lists[e.x].its)
                             /\ Len(obs.lists[n + 1].its) = Min2(e.a.n, Len(s.lists[e.x].its)))
       THEN "SM:sample-not-an-ordered-sublist-of-min(n,len)-items"
  ELSE IF \E i \in 1..n : obs.lists[i].its # exp.lists[i].its THEN "SM:an-existing-list-changed-its-items:" \o op
  ELSE IF obs.lists[n + 1].its # exp.lists[n + 1].its THEN "SM:result-holds-wrong-item-objects:" \o op
  ELSE IF obs.items # exp.items THEN
       (IF op \in NonModifying THEN "SM:non-modifying-method-changed-an-item:" \o op
        ELSE "SM:editor-changed-items-other-than-as-documented:" \o op)
  ELSE IF \E i \in DOMAIN exp.lists : exp.lists[i].flag = "yes" /\ ~obs.lists[i].ob
       THEN "SM:must-report-obsolete-but-does-not:" \o op
  ELSE IF \E i \in DOMAIN exp.lists : exp.lists[i].flag = "no" /\ obs.lists[i].ob
       THEN "SM:must-not-report-obsolete-but-does:" \o op
  ELSE IF obs.warn # (IF s.lists[e.x].oflag /\ ~s.lists[e.x].warned THEN 1 ELSE 0)
       THEN "SM:warning-not-printed-exactly-once-on-next-use"
  ELSE ""

(* adopt the observation (so that the rest of the trace is still examined) *)
Adopt(s, e) ==
  LET exp == Expected(s, e)  obs == e.obs IN
  IF obs.err # "" \/ Len(obs.lists) # Len(exp.lists) THEN s
  ELSE [items |-> obs.items,
        lists |-> [i \in DOMAIN exp.lists |->
                     [exp.lists[i] EXCEPT !.its = obs.lists[i].its,
                                          !.oflag = obs.lists[i].ob,
                                          !.warned = IF i = e.x THEN (exp.lists[i].warned \/ s.lists[e.x].oflag)
                                                     ELSE exp.lists[i].warned]]]

Init == tid = 0 /\ l = 0 /\ st = [items |-> <<>>, lists |-> <<>>] /\ bad = ""
Pick == /\ tid = 0 /\ \E t \in 1..Len(T) : tid' = t /\ st' = InitState(T[t])
        /\ l' = 1 /\ bad' = ""
Next1 == /\ tid > 0 /\ l >= 1 /\ l <= Len(T[tid].steps)
         /\ LET e == T[tid].steps[l] IN
              IF ~EventOK(st, e) THEN bad' = "" /\ st' = Adopt(st, e)       \* outside the supported inputs: not judged
              ELSE LET v == Clause(st, e) IN
                   /\ bad' = v
                   /\ (v # "" => PrintT(ToJson([BAD |-> v, tid |-> tid, step |-> l])))
                   /\ st' = Adopt(st, e)
         /\ l' = l + 1 /\ UNCHANGED tid
Next == Pick \/ Next1
Spec == Init /\ [][Next]_<<tid, l, st, bad>>
Accepted == bad = ""
StateOK == tid > 0 => ListsWF(st)
=============================================================================
