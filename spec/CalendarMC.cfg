INIT Init
NEXT Next
INVARIANT Inv
CONSTANTS
  Years = {1, 2, 3, 4, 100, 400, 1582, 1583, 1600, 1899, 1900, 1901, 1969, 1970, 1999, 2000, 2001, 2015, 2019, 2020, 2021, 2024, 2026, 2100, 9998}
