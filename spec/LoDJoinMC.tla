------------------------------ MODULE LoDJoinMC ------------------------------
EXTENDS LoDJoin, TLC, Json
CONSTANTS MaxL, MaxR, Emit
VARIABLES stage, lk, lj, rk, rj, by
Vals == {None, 0, 1}
Y(i) == IF i = 2 THEN None ELSE i
LL == [i \in DOMAIN lk |-> [c \in {"lt", "k", "j"} |-> IF c = "lt" THEN i - 1 ELSE IF c = "k" THEN lk[i] ELSE lj[i]]]
RR(b) == IF Len(b) = 2
         THEN [i \in DOMAIN rk |-> [c \in {"rt", "k", "j", "y"} |-> IF c = "rt" THEN i - 1 ELSE IF c = "k" THEN rk[i] ELSE IF c = "j" THEN rj[i] ELSE Y(i)]]
         ELSE [i \in DOMAIN rk |-> [c \in {"rt", "k", "y"} |-> IF c = "rt" THEN i - 1 ELSE IF c = "k" THEN rk[i] ELSE Y(i)]]
Init == stage = "L" /\ lk = <<>> /\ lj = <<>> /\ rk = <<>> /\ rj = <<>> /\ by = <<>>
GrowL == /\ stage = "L" /\ Len(lk) < MaxL /\ \E a \in Vals, b \in Vals : lk' = Append(lk, a) /\ lj' = Append(lj, b)
         /\ UNCHANGED <<stage, rk, rj, by>>
FixL  == /\ stage = "L" /\ stage' = "R" /\ UNCHANGED <<lk, lj, rk, rj, by>>
         /\ (Emit => PrintT(ToJson([kind |-> "L", k |-> lk, j |-> lj])))
GrowR == /\ stage = "R" /\ Len(rk) < MaxR /\ \E a \in Vals, b \in Vals : rk' = Append(rk, a) /\ rj' = Append(rj, b)
         /\ UNCHANGED <<stage, lk, lj, by>>
FixR  == /\ stage = "R" /\ \E b \in {<<"k">>, <<"k", "j">>} : by' = b
         /\ stage' = "done" /\ UNCHANGED <<lk, lj, rk, rj>>
         /\ ((Emit /\ lk = <<>>) => PrintT(ToJson([kind |-> "R", k |-> rk, j |-> rj])))
Next == GrowL \/ FixL \/ GrowR \/ FixR
Spec == Init /\ [][Next]_<<stage, lk, lj, rk, rj, by>>
Inv == stage = "done" => ModelJ(LL, RR(by), by)
=============================================================================
