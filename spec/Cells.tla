------------------------------- MODULE Cells -------------------------------
(* Abstract cell values shared by every machine.

   A cell is NA (-1) or a natural number c.  K(c) = c \div 2 is the cell's
   equality / order class: all sorting, grouping, uniqueness and matching is
   defined on K, while "the value was not altered" clauses compare the cell
   itself.  Odd cells are "twins" of the even cell below them (same class,
   distinguishable representation: -0.0 vs 0.0).                              *)
EXTENDS Integers, Sequences, FiniteSets

NA == -1
Alien == -99          \* what the abstraction returns for a value that is in nobody's palette
IsNA(c) == c = NA
K(c) == IF c < 0 THEN c ELSE c \div 2

Range(s) == {s[i] : i \in DOMAIN s}
Count(s, v) == Cardinality({i \in DOMAIN s : s[i] = v})
SameBag(s, t) == /\ Len(s) = Len(t)
                 /\ \A v \in Range(s) \cup Range(t) : Count(s, v) = Count(t, v)
SeqsUpTo(S, n) == UNION {[1..m -> S] : m \in 0..n}
Min2(a, b) == IF a < b THEN a ELSE b
Max2(a, b) == IF a > b THEN a ELSE b

(* The subsequence of s at the index set I (increasing order). *)
RECURSIVE SubAt(_, _)
SubAt(s, I) ==
  IF I = {} THEN <<>>
  ELSE LET m == CHOOSE i \in I : \A j \in I : i <= j
       IN  <<s[m]>> \o SubAt(s, I \ {m})

(* Indices in increasing order as a sequence. *)
RECURSIVE IdxSeq(_)
IdxSeq(I) ==
  IF I = {} THEN <<>>
  ELSE LET m == CHOOSE i \in I : \A j \in I : i <= j
       IN  <<m>> \o IdxSeq(I \ {m})

(* Stable sort: position (1-based) that index i takes when 1..n is sorted by
   the strict weak order Before(_,_), ties in index order. *)
StablePos(n, Before(_, _), i) ==
  1 + Cardinality({j \in 1..n : j # i /\ (Before(j, i) \/ (~Before(i, j) /\ j < i))})
StablePerm(n, Before(_, _)) ==
  [k \in 1..n |-> CHOOSE i \in 1..n : StablePos(n, Before, i) = k]

IsPerm(p, n) == Len(p) = n /\ {p[i] : i \in DOMAIN p} = 1..n
=============================================================================
