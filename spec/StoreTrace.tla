------------------------------ MODULE StoreTrace ------------------------------
EXTENDS Store, Json, IOUtils
VARIABLES tid, l, fs, bad
T == JsonDeserialize(IOEnv.TRACE_FILE)
Init == tid = 0 /\ l = 0 /\ fs = EmptyFS /\ bad = ""
Pick1 == /\ tid = 0 /\ \E t \in 1..Len(T) : tid' = t
         /\ l' = 1 /\ fs' = EmptyFS /\ bad' = ""
Next1 == /\ tid > 0 /\ l >= 1 /\ l <= Len(T[tid].steps)
         /\ LET e == T[tid].steps[l] IN
              IF e.t = "write" THEN
                   LET v == JudgeWrite(e) IN
                   /\ bad' = v /\ (v # "" => PrintT(ToJson([BAD |-> v, tid |-> tid, step |-> l])))
                   /\ fs' = IF e.obs.err = "" /\ e.obs.exists THEN WriteFS(fs, e) ELSE fs     \* a write that left no file at the path is not read back
              ELSE IF ~Readable(fs, e) THEN bad' = "" /\ fs' = fs
              ELSE LET v == JudgeRead(fs, T[tid].contents, e) IN
                   /\ bad' = v /\ (v # "" => PrintT(ToJson([BAD |-> v, tid |-> tid, step |-> l])))
                   /\ fs' = fs
         /\ l' = l + 1 /\ UNCHANGED tid
Next == Pick1 \/ Next1
Spec == Init /\ [][Next]_<<tid, l, fs, bad>>
Accepted == bad = ""
=============================================================================
