------------------------------- MODULE RenderMC -------------------------------
(* Enumerates layouts (column widths, gutter, max_width) and checks RenderMech against layer 1;
   emits every layout once for replay with strings of exactly those display widths.          *)
EXTENDS Render, TLC, Json
CONSTANTS MaxCols, Widths, MaxWidths, Emit
VARIABLES ws, mw, done
Init == ws = <<>> /\ mw = 0 /\ done = FALSE
Grow == ~done /\ Len(ws) < MaxCols /\ \E w \in Widths : ws' = Append(ws, w) /\ UNCHANGED <<mw, done>>
Stop == ~done /\ \E m \in MaxWidths : mw' = m /\ done' = TRUE /\ ws' = ws
           /\ (Emit => PrintT(ToJson([ws |-> ws, mw |-> m, batches |-> Batches(ws, 1, 1, m)])))
Next == Grow \/ Stop
Spec == Init /\ [][Next]_<<ws, mw, done>>
Inv == done => \A g \in 0..2 : MechOK(ws, g, mw)
=============================================================================
