---------------------------- MODULE CombineOpsMC ----------------------------
(* Enumerates base frames (columns a, b, c + row id r, <= MaxRows rows) and the
   argument records of every reshaping/combining operation; model-checks
   ModelOK over the product; emits frames and (once per row count) arguments. *)
EXTENDS CombineOps, TLC, Json
CONSTANTS MaxRows, PosCells, Emit, Which
CellSet == {NA} \cup PosCells
VARIABLES stage, ca, cb, cc, arg, others

Names == {"a", "b", "c", "r"}
NameSeq == <<"a", "b", "c", "r", "x", "y">>
Ord(c) == CHOOSE i \in DOMAIN NameSeq : NameSeq[i] = c
RCol(n, base) == [i \in 1..n |-> 2 * (base + i - 1)]
Fr == [cols |-> <<"a", "b", "c", "r">>,
       cell |-> [c \in Names |-> IF c = "a" THEN ca ELSE IF c = "b" THEN cb ELSE IF c = "c" THEN cc ELSE RCol(Len(ca), 0)]]

DistinctSeqs(S, n) == {s \in SeqsUpTo(S, n) : \A x, y \in DOMAIN s : x # y => s[x] # s[y]}
\* injective renames of subsets of {a,b,c} into {a,b,c,x,y} whose result has unique names
RenamePairs ==
  {p \in DistinctSeqs({<<t, f>> : t \in {"a", "b", "c", "x", "y"}, f \in {"a", "b", "c"}}, 3) :
     /\ \A i, j \in DOMAIN p : i # j => p[i][1] # p[j][1] /\ p[i][2] # p[j][2]
     /\ \A i \in DOMAIN p : p[i][1] # p[i][2]
     /\ \A i, j \in DOMAIN p : i < j => Ord(p[i][2]) < Ord(p[j][2])     \* one order per map
     /\ LET froms == {p[i][2] : i \in DOMAIN p}  tos == {p[i][1] : i \in DOMAIN p}
        IN  tos \cap (Names \ froms) = {}}
ColVals(n) == [1..n -> CellSet] \cup [1..1 -> CellSet]
SecondFrames(n) ==     \* operand of cbind / update: a well-formed frame with columns from {b (clash), x (new)}
                       \* and either n rows or one row (broadcast)
  {[cols |-> cs, cell |-> [c \in Range(cs) |-> IF c = "b" THEN [i \in 1..m |-> vb[i]] ELSE [i \in 1..m |-> vx[i]]]] :
      cs \in {<<"b">>, <<"x">>, <<"x", "b">>, <<"b", "x">>}, m \in {n, 1},
      vb \in {[i \in 1..2 |-> 2], [i \in 1..2 |-> NA]},
      vx \in {[i \in 1..2 |-> IF i = 1 THEN 0 ELSE NA], [i \in 1..2 |-> 2]}}
SingleArgs(n) ==
       {[op |-> "select", names |-> s] : s \in DistinctSeqs(Names, 4) \ {<<>>}}
  \cup {[op |-> "unselect", names |-> s] : s \in {t \in DistinctSeqs(Names, 4) : \A x, y \in DOMAIN t : x < y => Ord(t[x]) < Ord(t[y])}}
  \cup {[op |-> "rename", pairs |-> p] : p \in RenamePairs \ {<<>>}}
  \cup {[op |-> "colnames", names |-> s] : s \in {t \in DistinctSeqs(Names \cup {"x"}, 4) : Len(t) = 4}}
  \cup {[op |-> "modify", name |-> nm, col |-> v, form |-> fm] : nm \in {"a", "b", "x"}, v \in ColVals(n),
                                                              fm \in {"value", "callable"}}
PairArgs(n) == {[op |-> o, g |-> g] : o \in {"cbind", "update"}, g \in SecondFrames(n)}
          \cup {[op |-> "cbind", g |-> g, g2 |-> g2] : g \in SecondFrames(n), g2 \in {h \in SecondFrames(n) : "x" \in ColSet(h) /\ NRow(h) = n /\ h.cell["x"] = [i \in 1..n |-> 2]}}

\* rbind operands: a column subsequence of the base frame, or a fresh frame with other columns
SubFrame(f, cs) == [cols |-> cs \o <<"r">>, cell |-> [c \in Range(cs) \cup {"r"} |-> f.cell[c]]]
RbindShapes == {<<>>, <<"a">>, <<"b">>, <<"a", "b">>, <<"b", "a">>, <<"a", "b", "c">>}
OtherFrames(base) ==
  {[cols |-> cs \o <<"r">>,
    cell |-> [c \in Range(cs) \cup {"r"} |-> IF c = "r" THEN RCol(Len(v), base) ELSE IF c = "a" THEN v ELSE [i \in DOMAIN v |-> IF v[i] = NA THEN 2 ELSE NA]]] :
     cs \in {<<>>, <<"a">>, <<"b">>, <<"b", "a">>, <<"x">>}, v \in SeqsUpTo(CellSet, 2)}

Canon == \A i \in DOMAIN ca : ca[i] = 0 /\ cb[i] = 0 /\ cc[i] = 0

Init == stage = "rows" /\ ca = <<>> /\ cb = <<>> /\ cc = <<>> /\ arg = [op |-> "none"] /\ others = <<>>
Grow == /\ stage = "rows" /\ Len(ca) < MaxRows
        /\ \E x \in CellSet, y \in CellSet, z \in CellSet : ca' = Append(ca, x) /\ cb' = Append(cb, y) /\ cc' = Append(cc, z)
        /\ UNCHANGED <<stage, arg, others>>
Fix  == /\ stage = "rows" /\ stage' = "args" /\ UNCHANGED <<ca, cb, cc, arg, others>>
        /\ (Emit => PrintT(ToJson([kind |-> "frame", fr |-> Fr])))
ChooseSingle ==
  /\ stage = "args" /\ Which = "single"
  /\ \E a \in SingleArgs(Len(ca)) \cup PairArgs(Len(ca)) :
        /\ arg' = a
        /\ others' = IF a.op \in {"cbind", "update"} THEN (IF "g2" \in DOMAIN a THEN <<a.g, a.g2>> ELSE <<a.g>>) ELSE <<>>
        /\ ((Emit /\ Canon) => PrintT(ToJson([kind |-> "arg", n |-> Len(ca), a |-> a])))
  /\ stage' = "done" /\ UNCHANGED <<ca, cb, cc>>
ChooseRbind ==
  /\ stage = "args" /\ Which = "rbind"
  /\ \E sh \in RbindShapes, o \in OtherFrames(3) :
        /\ arg' = [op |-> "rbind", shape |-> sh]
        /\ others' = <<o>>
        /\ ((Emit /\ Canon /\ sh = <<>>) => PrintT(ToJson([kind |-> "other", fr |-> o])))
        /\ ((Emit /\ Canon /\ o.cols = <<"r">> /\ NRow(o) = 0) => PrintT(ToJson([kind |-> "shape", sh |-> sh])))
  /\ stage' = "rb2" /\ UNCHANGED <<ca, cb, cc>>
ThirdFrame ==       \* optionally a third operand
  /\ stage = "rb2"
  /\ \/ others' = others
     \/ \E o \in {g \in OtherFrames(6) : NRow(g) <= 1 /\ g.cols \in {<<"r">>, <<"b", "a", "r">>, <<"x", "r">>}} :
           /\ others' = Append(others, o)
           /\ ((Emit /\ Canon /\ arg.shape = <<>> /\ others[1].cols = <<"r">> /\ NRow(others[1]) = 0)
                 => PrintT(ToJson([kind |-> "third", fr |-> o])))
  /\ stage' = "done" /\ UNCHANGED <<ca, cb, cc, arg>>
Next == Grow \/ Fix \/ ChooseSingle \/ ChooseRbind \/ ThirdFrame
Spec == Init /\ [][Next]_<<stage, ca, cb, cc, arg, others>>
Operands == IF arg.op = "rbind" THEN <<SubFrame(Fr, arg.shape)>> \o others ELSE <<Fr>> \o others
ArgOf == IF arg.op = "modify" THEN [op |-> "modify", name |-> arg.name, col |-> arg.col] ELSE arg
Inv == stage = "done" => ModelOK(ArgOf, Operands)
=============================================================================
