--------------------------------- MODULE Lift ---------------------------------
(* C19 - dt and regex functions act element-wise.
   The lifting discipline: out[i] is missing iff in[i] is missing; at the other positions out[i] is
   the element function applied to in[i].  For the 11 date extractors the element function is
   the Calendar model; for replace / to_string / from_string / regex it is Python's own
   datetime / re applied to that single element (App, concretised by the executor; the
   executor only reports whether the element equals the reference: eq[i]).                    *)
EXTENDS Calendar, Sequences, FiniteSets

Extractors == {"year", "month", "day", "hour", "minute", "second", "microsecond", "weekday", "isoweekday", "isoweek", "quarter"}
TimeOfDay == {"hour", "minute", "second", "microsecond"}

(* e.xs[i] = [na, ord, sod, us]; e.out[i] = [na, v] *)
JudgeExtract(e) ==
  IF Len(e.out) # Len(e.xs) THEN e.f \o ":result-length-differs"
  ELSE IF \E i \in DOMAIN e.xs : e.out[i].na # e.xs[i].na THEN e.f \o ":missing-not-exactly-at-NaT"
  ELSE IF \E i \in DOMAIN e.xs : ~e.xs[i].na /\ e.out[i].v # Extract(e.f, e.xs[i].ord, e.xs[i].sod, e.xs[i].us)
       THEN e.f \o ":not-the-calendar-value"
  ELSE IF \E i \in DOMAIN e.xs : ~e.xs[i].na /\ ~e.eq[i] THEN e.f \o ":differs-from-python-datetime"
  ELSE ""

(* generic lifted function: e.na input mask, e.out_na output mask, e.eq[i] element equals the reference *)
JudgeLift(e) ==
  IF Len(e.out_na) # Len(e.na) THEN e.f \o ":result-length-differs"
  ELSE IF \E i \in DOMAIN e.na : e.out_na[i] # e.na[i] THEN e.f \o ":missing-not-exactly-at-missing-input"
  ELSE IF \E i \in DOMAIN e.na : ~e.na[i] /\ ~e.eq[i] THEN e.f \o ":element-differs-from-python-reference"
  ELSE ""

Judge(e) ==
  IF e.err # "" THEN e.f \o ":raised"
  ELSE LET v == IF e.k = "extract" THEN JudgeExtract(e) ELSE JudgeLift(e) IN
       IF v # "" THEN v
       ELSE IF ~e.proxy_eq THEN e.f \o ":proxy-differs-from-module-function"
       ELSE IF ~e.scalar_eq THEN e.f \o ":scalar-argument-differs-from-one-element-vector"
       ELSE IF e.k = "roundtrip" /\ \E i \in DOMAIN e.na : ~e.na[i] /\ ~e.back_eq[i] THEN e.f \o ":from_string-does-not-invert-to_string"
       ELSE ""

(* the discipline itself on the model: lifting any element function through a mask *)
LiftModel(xs, F(_)) == [i \in DOMAIN xs |-> IF xs[i].na THEN [na |-> TRUE, v |-> 0] ELSE [na |-> FALSE, v |-> F(xs[i])]]
ModelOK(xs) ==
  \A f \in Extractors :
     LET G(x) == Extract(f, x.ord, x.sod, x.us)
         out == LiftModel(xs, G) IN
     JudgeExtract([f |-> f, xs |-> xs, out |-> out, eq |-> [i \in DOMAIN xs |-> TRUE]]) = ""
=============================================================================
