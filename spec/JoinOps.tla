------------------------------ MODULE JoinOps ------------------------------
(* C05 - joins follow first-match relational semantics and never lose rows.
   L has columns k, j and the row id r; R has the key columns named in by
   (under the same abstract names; renaming is a concrete matter), a payload y
   and its own row id rr.  A key cell matches iff both are non-NA and have the
   same class K.                                                              *)
EXTENDS Frame

KeysMatch(L, R, by, i, m) ==
  \A c \in Range(by) : L.cell[c][i] # NA /\ R.cell[c][m] # NA /\ K(L.cell[c][i]) = K(R.cell[c][m])
Matches(L, R, by, i) == {m \in 1..NRow(R) : KeysMatch(L, R, by, i, m)}
Match(L, R, by, i) ==            \* first matching right row, 0 when there is none
  IF Matches(L, R, by, i) = {} THEN 0
  ELSE CHOOSE m \in Matches(L, R, by, i) : \A h \in Matches(L, R, by, i) : m <= h

RExtra(R, by) == SubAt(R.cols, {x \in DOMAIN R.cols : R.cols[x] \notin Range(by)})   \* right non-key columns

(* ---------------- constructive ---------------- *)
Joined(L, R, by, pick) ==        \* left rows at pick, extended with the first match or NA
  [cols |-> L.cols \o RExtra(R, by),
   cell |-> [c \in ColSet(L) \cup Range(RExtra(R, by)) |->
               IF c \in ColSet(L) THEN [t \in 1..Len(pick) |-> L.cell[c][pick[t]]]
               ELSE [t \in 1..Len(pick) |->
                       IF Match(L, R, by, pick[t]) = 0 THEN NA ELSE R.cell[c][Match(L, R, by, pick[t])]]]]
LeftJoin(L, R, by)  == Joined(L, R, by, [t \in 1..NRow(L) |-> t])
InnerJoin(L, R, by) == Joined(L, R, by, IdxSeq({i \in 1..NRow(L) : Match(L, R, by, i) # 0}))
SemiJoin(L, R, by)  == Rows(L, IdxSeq({i \in 1..NRow(L) : Match(L, R, by, i) # 0}))
AntiJoin(L, R, by)  == Rows(L, IdxSeq({i \in 1..NRow(L) : Match(L, R, by, i) = 0}))

(* column order is a free point: frames are compared as maps *)
SameTable(a, b) == /\ Range(a.cols) = Range(b.cols) /\ Len(a.cols) = Len(b.cols)
                   /\ \A c \in Range(a.cols) : a.cell[c] = b.cell[c]

(* ---------------- declarative ---------------- *)
FullJoinOK(L, R, by, out) ==
  LET n == NRow(out)
      lid(t) == out.cell["r"][t]
      rid(t) == out.cell["rr"][t]
      li(t) == CHOOSE i \in 1..NRow(L) : L.cell["r"][i] = lid(t)
      ri(t) == CHOOSE m \in 1..NRow(R) : R.cell["rr"][m] = rid(t)
  IN
  /\ Range(out.cols) = ColSet(L) \cup Range(RExtra(R, by))
  /\ \A c \in Range(out.cols) : Len(out.cell[c]) = n
  /\ \A t \in 1..n :
       /\ ~(lid(t) = NA /\ rid(t) = NA)
       /\ lid(t) # NA => /\ \E i \in 1..NRow(L) : L.cell["r"][i] = lid(t)
                         /\ \A c \in ColSet(L) \ Range(by) : out.cell[c][t] = L.cell[c][li(t)]
                         /\ \A c \in Range(by) : K(out.cell[c][t]) = K(L.cell[c][li(t)])      \* an equal key may be either side's representation (-0.0 / 0.0)
       /\ rid(t) # NA => /\ \E m \in 1..NRow(R) : R.cell["rr"][m] = rid(t)
                         /\ \A c \in Range(RExtra(R, by)) : out.cell[c][t] = R.cell[c][ri(t)]
       /\ (lid(t) # NA /\ rid(t) # NA) => KeysMatch(L, R, by, li(t), ri(t))     \* never pairs unequal keys
       /\ (lid(t) = NA /\ rid(t) # NA) =>
             /\ \A c \in Range(by) : K(out.cell[c][t]) = K(R.cell[c][ri(t)])      \* keys come from the right row
             /\ \A c \in ColSet(L) \ Range(by) : out.cell[c][t] = NA
       /\ (lid(t) # NA /\ rid(t) = NA) => \A c \in Range(RExtra(R, by)) : out.cell[c][t] = NA
  /\ \A i \in 1..NRow(L) : \E t \in 1..n : lid(t) = L.cell["r"][i]                \* every left row
  /\ \A m \in 1..NRow(R) : \E t \in 1..n : rid(t) = R.cell["rr"][m]               \* every right row

Judge(e) ==
  LET L == e.L  R == e.R  by == e.a.by  kind == e.a.kind  out == e.out IN
  IF e.err # "" THEN kind \o "_join:raised"
  ELSE IF ~WellFormed(out) THEN kind \o "_join:result-not-rectangular"
  ELSE IF kind = "left" THEN
     (IF SameTable(out, LeftJoin(L, R, by)) THEN ""
      ELSE IF Range(out.cols) # Range(LeftJoin(L, R, by).cols) THEN "left_join:wrong-columns"
      ELSE IF \E c \in ColSet(L) : out.cell[c] # L.cell[c] THEN "left_join:left-rows-not-kept-unchanged-in-order"
      ELSE "left_join:not-first-match-or-missing")
  ELSE IF kind = "inner" THEN
     (IF SameTable(out, InnerJoin(L, R, by)) THEN ""
      ELSE IF Range(out.cols) # Range(InnerJoin(L, R, by).cols) THEN "inner_join:wrong-columns"
      ELSE IF out.cell["r"] # InnerJoin(L, R, by).cell["r"] THEN "inner_join:not-the-matched-subset"
      ELSE "inner_join:not-first-match")
  ELSE IF kind = "semi" THEN
     (IF SameTable(out, SemiJoin(L, R, by)) THEN "" ELSE "semi_join:not-the-matched-left-rows")
  ELSE IF kind = "anti" THEN
     (IF SameTable(out, AntiJoin(L, R, by)) THEN "" ELSE "anti_join:not-the-unmatched-left-rows")
  ELSE IF kind = "full" THEN
     (IF FullJoinOK(L, R, by, out) THEN "" ELSE "full_join:loses-rows-or-pairs-unequal-keys")
  ELSE "unknown-join"

(* ---------------- the model itself ---------------- *)
ModelOK(L, R, by) ==
  LET lj == LeftJoin(L, R, by)  ij == InnerJoin(L, R, by)
      sj == SemiJoin(L, R, by)  aj == AntiJoin(L, R, by) IN
  /\ WellFormed(lj) /\ WellFormed(ij) /\ WellFormed(sj) /\ WellFormed(aj)
  /\ NRow(lj) = NRow(L)                                         \* LeftKeepsAll
  /\ \A c \in ColSet(L) : lj.cell[c] = L.cell[c]
  /\ NRow(sj) + NRow(aj) = NRow(L)                              \* SemiAntiPartition
  /\ Range(sj.cell["r"]) \cap Range(aj.cell["r"]) = {}
  /\ ij.cell["r"] = sj.cell["r"]                                \* InnerIsMatchedSubset
  /\ \A t \in 1..NRow(ij) : ij.cell["rr"][t] # NA
  /\ \A t \in 1..NRow(lj) : (lj.cell["rr"][t] = NA) <=> (lj.cell["r"][t] \in Range(aj.cell["r"]))
  /\ \A i \in 1..NRow(L) : AnyNAOn(L, Range(by), i) => Match(L, R, by, i) = 0      \* NAnevermatch
  /\ FullJoinOK(L, R, by, lj) \/ \E m \in 1..NRow(R) : \A t \in 1..NRow(lj) : lj.cell["rr"][t] # R.cell["rr"][m]
=============================================================================
