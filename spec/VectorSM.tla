------------------------------ MODULE VectorSM ------------------------------
(* C06 (Vector half) - every Vector method documented as returning a new object leaves its
   receiver and arguments unchanged and returns data sharing no memory with them.
   The heap is a sequence of buffers; a call  r = v.m(args)  allocates a fresh buffer for r.
   One recorded call e:
     e.m        method name                      e.before / e.after   receiver cells before / after
     e.arg_before / e.arg_after                  argument vector cells (concat), <<>> otherwise
     e.shares   result shares memory with the receiver or the argument
     e.dtype_same  receiver dtype unchanged      e.poke_leaks  a write into the result changed the receiver *)
EXTENDS Cells
NewObjectMethods == {"drop_na", "head", "tail", "sample", "replace_na", "sort", "unique", "rank", "concat",
                     "as_boolean", "as_bytes", "as_date", "as_datetime", "as_float", "as_integer", "as_object", "as_string",
                     "map", "range", "tolist", "to_strings", "equal", "is_na", "copy",
                     "concat_none", "concat_empty", "empty_concat"}      \* concat without / with an empty operand
Judge(e) ==
  IF e.m \notin NewObjectMethods THEN ""
  ELSE IF e.err # "" THEN ""                         \* an exception is not this property's business
  ELSE IF e.after # e.before THEN "C06:vector-method-changed-its-receiver:" \o e.m
  ELSE IF ~e.dtype_same THEN "C06:vector-method-changed-receiver-dtype:" \o e.m
  ELSE IF e.arg_after # e.arg_before THEN "C06:vector-method-changed-its-argument:" \o e.m
  ELSE IF e.shares THEN "C06:vector-result-shares-memory-with-operand:" \o e.m
  ELSE IF e.poke_leaks THEN "C06:write-into-result-visible-in-receiver:" \o e.m
  ELSE ""

(* the heap model behind it, checked by VectorSMMC: fresh result, operands untouched, pokes local *)
CallStep(bufs, v) == Append(bufs, bufs[v])                   \* any method: a fresh buffer (contents abstracted)
Poke(bufs, b, i, x) == [bufs EXCEPT ![b][i] = x]
=============================================================================
