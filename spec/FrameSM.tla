------------------------------- MODULE FrameSM -------------------------------
(* C01 / C06 - the DataFrame session machine: frames (handles) over a heap of
   column buffers.  Aliasing = two columns holding the same BufId.

   st.bufs   : Seq of Seq(cell)                      (BufId = position)
   st.frames : Seq of [cols : Seq(name), buf : [name -> BufId], grp : Seq(name)]

   An event e has e.op, the receiver e.x, optionally e.o (another frame) and the
   argument record e.a of the single-call modules (FrameOps / CombineOps / JoinOps). *)
EXTENDS FrameOps
C == INSTANCE CombineOps
J == INSTANCE JoinOps
GR == INSTANCE GroupOps

View(st, h) == [cols |-> st.frames[h].cols,
                cell |-> [c \in Range(st.frames[h].cols) |-> st.bufs[st.frames[h].buf[c]]]]
NRowH(st, h) == NRow(View(st, h))
BufsOf(st, h) == {st.frames[h].buf[c] : c \in Range(st.frames[h].cols)}

(* a new frame with fresh buffers for every column, in column order *)
AddFresh(st, f, grp) ==
  LET n0 == Len(st.bufs) IN
  [bufs   |-> st.bufs \o [i \in 1..Len(f.cols) |-> f.cell[f.cols[i]]],
   frames |-> Append(st.frames, [cols |-> f.cols,
                                 buf  |-> [c \in Range(f.cols) |-> n0 + (CHOOSE i \in DOMAIN f.cols : f.cols[i] = c)],
                                 grp  |-> grp])]

RowOps   == {"filter", "filter_out", "slice", "slice_off", "head", "tail", "drop_na", "unique", "sort"}
ColOps   == {"select", "unselect", "rename", "modify"}
(* grouped modify: the receiver is grouped; the function returns a scalar (e.flen = 1, broadcast over the group) or a
   vector of e.flen = 2 or 3 values: accepted only if every group has exactly that many rows, rejected otherwise *)
GroupCol(st, e) ==
  LET f == View(st, e.x)  by == st.frames[e.x].grp IN
  [i \in 1..NRow(f) |->
     IF e.flen = 1 THEN e.vals[1]
     ELSE LET mem == GR!Members(f, by, i) IN e.vals[CHOOSE t \in DOMAIN mem : mem[t] = i]]
GroupSizesAll(st, e, k) ==
  LET f == View(st, e.x)  by == st.frames[e.x].grp IN \A i \in 1..NRow(f) : Len(GR!Members(f, by, i)) = k
PairOps  == {"rbind", "cbind", "update"}
JoinKs   == {"left", "inner", "semi", "anti"}
Transforming == RowOps \cup ColOps \cup PairOps \cup JoinKs \cup {"full", "deepcopy", "gmodify"}
(* calls that return something else than a frame of the session (a summary, index lists, text): the session state -
   every frame's columns, cells and grouping - is exactly what it was *)
Observers == {"count", "aggregate", "split", "render"}
(* unique() without column names means all columns *)
NormArg(f, a) == IF a.op = "unique" /\ a.cols = <<>> THEN [a EXCEPT !.cols = f.cols] ELSE a
InPlaceOps == {"setitem", "setcol", "delitem", "delattr", "pop", "colnames", "group_by"}

ResultOf(st, e) ==            \* the abstract frame a transforming call must return (full join: see trace spec)
  LET f == View(st, e.x) IN
  CASE e.op = "sort"        -> Rows(f, SortPick(f, e.a.keys, e.a.dirs))
    [] e.op \in RowOps      -> Rows(f, Pick(f, NormArg(f, e.a)))
    [] e.op \in ColOps      -> C!Expected(e.a, <<f>>)
    [] e.op \in PairOps     -> C!Expected(e.a, <<f, View(st, e.o)>>)
    [] e.op = "left"        -> J!LeftJoin(f, View(st, e.o), <<"k">>)
    [] e.op = "inner"       -> J!InnerJoin(f, View(st, e.o), <<"k">>)
    [] e.op = "semi"        -> J!SemiJoin(f, View(st, e.o), <<"k">>)
    [] e.op = "anti"        -> J!AntiJoin(f, View(st, e.o), <<"k">>)
    [] e.op = "deepcopy"    -> f
    [] e.op = "gmodify"     -> C!Modify(f, e.name, GroupCol(st, e))

CtorLens(st, e) == {Len(e.col)} \cup (IF Range(st.frames[e.x].cols) \ {e.name} = {} THEN {} ELSE {NRowH(st, e.x)})   \* the keyword replaces a column of that name
CtorN(st, e) == CHOOSE m \in CtorLens(st, e) : \A l \in CtorLens(st, e) : l <= m
Bcast(col, n) == IF Len(col) = n THEN col ELSE [i \in 1..n |-> col[1]]
FitsRows(st, h, col) == st.frames[h].cols = <<>> \/ Len(col) = NRowH(st, h) \/ Len(col) = 1

(* in-place edits of frame x *)
SetBuf(st, x, name, b) ==
  [st EXCEPT !.frames[x] = [cols |-> IF name \in Range(@.cols) THEN @.cols ELSE Append(@.cols, name),
                            buf  |-> [c \in Range(@.cols) \cup {name} |-> IF c = name THEN b ELSE @.buf[c]],
                            grp  |-> @.grp]]
DropCol(st, x, name) ==
  LET keep(c) == c # name IN
  [st EXCEPT !.frames[x] = [cols |-> C!Filter(@.cols, keep),
                            buf  |-> [c \in Range(@.cols) \ {name} |-> @.buf[c]],
                            grp  |-> @.grp]]

(* shares: for "setcol", whether the implementation was observed to store the very same buffer (free point) *)
Step(st, e, shares) ==
  IF e.op \in (Transforming \ {"full"}) THEN AddFresh(st, ResultOf(st, e), <<>>)
  ELSE IF e.op = "copy" THEN
       [st EXCEPT !.frames = Append(@, [st.frames[e.x] EXCEPT !.grp = <<>>])]
  ELSE IF e.op = "setitem" THEN
       LET n == IF st.frames[e.x].cols = <<>> THEN Len(e.col) ELSE NRowH(st, e.x) IN
       SetBuf([st EXCEPT !.bufs = Append(@, Bcast(e.col, n))], e.x, e.name, Len(st.bufs) + 1)
  ELSE IF e.op = "ctor" THEN
       (* DataFrame(frame, name=value): the constructor's rule - the row count is the largest length among the frame's
          columns and the value; shorter ones must have length one and are repeated (fresh arrays); columns that
          already have the row count are taken as they are (shared with the frame, as for copy); not grouped *)
       LET f == st.frames[e.x]
           n == CtorN(st, e)
           grow == f.cols # <<>> /\ NRowH(st, e.x) # n
           pos(c) == CHOOSE i \in DOMAIN f.cols : f.cols[i] = c
           \* (a column of the keyword's name is replaced below: what is put here for it does not matter)
           bufs1 == IF grow THEN st.bufs \o [i \in DOMAIN f.cols |-> IF f.cols[i] = e.name THEN <<>> ELSE Bcast(st.bufs[f.buf[f.cols[i]]], n)]
                    ELSE st.bufs
           fr1 == [cols |-> f.cols, grp |-> <<>>,
                   buf |-> [c \in Range(f.cols) |-> IF grow THEN Len(st.bufs) + pos(c) ELSE f.buf[c]]]
           s1 == [bufs |-> Append(bufs1, Bcast(e.col, n)), frames |-> Append(st.frames, fr1)] IN
       SetBuf(s1, Len(s1.frames), e.name, Len(s1.bufs))
  ELSE IF e.op = "setcol" THEN
       IF shares THEN SetBuf(st, e.x, e.name, st.frames[e.o].buf[e.oname])
       ELSE SetBuf([st EXCEPT !.bufs = Append(@, st.bufs[st.frames[e.o].buf[e.oname]])], e.x, e.name, Len(st.bufs) + 1)
  ELSE IF e.op \in {"delitem", "delattr", "pop"} THEN DropCol(st, e.x, e.name)
  ELSE IF e.op = "colnames" THEN
       [st EXCEPT !.frames[e.x] = [cols |-> e.names,
                                   buf  |-> [d \in Range(e.names) |-> @.buf[@.cols[CHOOSE i \in DOMAIN e.names : e.names[i] = d]]],
                                   grp  |-> @.grp]]
  ELSE IF e.op = "group_by" THEN [st EXCEPT !.frames[e.x].grp = e.cols]
  ELSE IF e.op = "poke" THEN
       [st EXCEPT !.bufs[st.frames[e.x].buf[e.name]][e.i] = e.v]
  ELSE st

TwoD(e) == "twod" \in DOMAIN e /\ e.twod       \* the value is a column object of shape (n, 1): not a one-dimensional column vector
MustFail(st, e) == \/ e.op = "setitem" /\ (~FitsRows(st, e.x, e.col) \/ TwoD(e))
                   \/ e.op = "ctor" /\ \E l \in CtorLens(st, e) : l # 1 /\ l # CtorN(st, e)
                   \/ e.op = "gmodify" /\ e.flen # 1 /\ ~GroupSizesAll(st, e, e.flen)

HasCols(st, h, names) == names \subseteq Range(st.frames[h].cols)
DistinctCol(st, h, c) == \A p, q \in 1..NRowH(st, h) : p # q => View(st, h).cell[c][p] # View(st, h).cell[c][q]
NoNA(st, h, c) == \A i \in 1..NRowH(st, h) : View(st, h).cell[c][i] # NA
EventOK(st, e) ==
  /\ e.x \in DOMAIN st.frames
  /\ ("o" \in DOMAIN e => e.o \in DOMAIN st.frames)
  /\ CASE e.op \in {"filter", "filter_out"} -> Len(e.a.mask) = NRowH(st, e.x) /\ st.frames[e.x].cols # <<>>
       [] e.op \in {"slice", "slice_off"} -> \A t \in DOMAIN e.a.idx : e.a.idx[t] < NRowH(st, e.x)
       [] e.op \in {"head", "tail"} -> TRUE
       [] e.op = "drop_na" -> HasCols(st, e.x, Range(e.a.cols)) /\ e.a.cols # <<>>
       [] e.op = "unique" -> HasCols(st, e.x, Range(e.a.cols)) /\ st.frames[e.x].cols # <<>>
       [] e.op \in {"count", "split"} -> HasCols(st, e.x, Range(e.cols)) /\ e.cols # <<>>
       [] e.op = "aggregate" -> st.frames[e.x].grp # <<>> /\ HasCols(st, e.x, Range(st.frames[e.x].grp))
       [] e.op = "render" -> TRUE
       [] e.op = "ctor" -> TRUE
       [] e.op = "sort" -> /\ HasCols(st, e.x, Range(e.a.keys)) /\ e.a.keys # <<>>
                           /\ \A t \in DOMAIN e.a.keys : e.a.dirs[t] = 1 \/ NoNA(st, e.x, e.a.keys[t])
       [] e.op \in {"select", "unselect"} -> HasCols(st, e.x, Range(e.a.names)) /\ (e.op = "unselect" \/ e.a.names # <<>>)
       [] e.op = "rename" -> /\ \A p \in DOMAIN e.a.pairs : e.a.pairs[p][2] \in Range(st.frames[e.x].cols)
                             /\ \A p \in DOMAIN e.a.pairs : e.a.pairs[p][1] \notin Range(st.frames[e.x].cols)
                             /\ \A p, q \in DOMAIN e.a.pairs : p # q => e.a.pairs[p][1] # e.a.pairs[q][1] /\ e.a.pairs[p][2] # e.a.pairs[q][2]
       [] e.op = "modify" -> st.frames[e.x].cols # <<>> /\ (Len(e.a.col) = NRowH(st, e.x) \/ Len(e.a.col) = 1)
                             /\ st.frames[e.x].grp = <<>>
       [] e.op = "gmodify" -> /\ st.frames[e.x].grp # <<>> /\ HasCols(st, e.x, Range(st.frames[e.x].grp)) /\ NRowH(st, e.x) >= 1
                              /\ e.flen \in {1, 2, 3}
       [] e.op = "rbind" -> TRUE
       [] e.op \in {"cbind", "update"} -> st.frames[e.x].cols # <<>> /\ st.frames[e.o].cols # <<>>
                                          /\ (NRowH(st, e.o) = NRowH(st, e.x) \/ NRowH(st, e.o) = 1)
       [] e.op \in JoinKs \cup {"full"} ->
             /\ "k" \in Range(st.frames[e.x].cols) /\ "k" \in Range(st.frames[e.o].cols)
             /\ Range(st.frames[e.x].cols) \cap Range(st.frames[e.o].cols) = {"k"}     \* non-key clashes: free point
             /\ (e.op = "full" => "r" \in Range(st.frames[e.x].cols) /\ "rr" \in Range(st.frames[e.o].cols)
                                  /\ NoNA(st, e.x, "r") /\ NoNA(st, e.o, "rr")
                                  /\ DistinctCol(st, e.x, "r") /\ DistinctCol(st, e.o, "rr"))
       [] e.op \in {"deepcopy", "copy"} -> TRUE
       [] e.op = "setitem" -> TRUE
       [] e.op = "setcol" -> /\ e.oname \in Range(st.frames[e.o].cols)
                             /\ (st.frames[e.x].cols = <<>> \/ NRowH(st, e.o) = NRowH(st, e.x))
       [] e.op \in {"delitem", "delattr", "pop"} -> e.name \in Range(st.frames[e.x].cols)
       [] e.op = "colnames" -> /\ Len(e.names) = Len(st.frames[e.x].cols)
                               /\ \A p, q \in DOMAIN e.names : p # q => e.names[p] # e.names[q]
       [] e.op = "group_by" -> HasCols(st, e.x, Range(e.cols))
       [] e.op = "poke" -> e.name \in Range(st.frames[e.x].cols) /\ e.i \in 1..NRowH(st, e.x)
       [] OTHER -> FALSE

(* ---------------- invariants / action properties of the model ---------------- *)
AllWF(st) == \A h \in DOMAIN st.frames :
                /\ WellFormed(View(st, h))
                /\ DOMAIN st.frames[h].buf = Range(st.frames[h].cols)
                /\ Range(st.frames[h].grp) \subseteq Range(st.frames[h].cols) \/ TRUE
FreshResult(st, e) ==
  e.op \in (Transforming \ {"full"}) =>
     LET s2 == Step(st, e, FALSE)  new == Len(s2.frames) IN
     /\ \A h \in DOMAIN st.frames : BufsOf(s2, new) \cap BufsOf(s2, h) = {}
     /\ Cardinality(BufsOf(s2, new)) = Len(s2.frames[new].cols)
OperandsUntouched(st, e) ==
  e.op \in ((Transforming \cup {"copy"}) \ {"full"}) =>
     \A h \in DOMAIN st.frames : View(Step(st, e, FALSE), h) = View(st, h) /\ Step(st, e, FALSE).frames[h] = st.frames[h]
PokeLocal(st, e) ==
  e.op = "poke" =>
     \A h \in DOMAIN st.frames : st.frames[e.x].buf[e.name] \notin BufsOf(st, h) => View(Step(st, e, FALSE), h) = View(st, h)
=============================================================================
