------------------------------- MODULE Calendar -------------------------------
(* An integer model of the proleptic Gregorian calendar, independent of Python's datetime.
   N = ordinal of a day, 1 = 0001-01-01 (so everything stays far below 2^31).                  *)
EXTENDS Integers

IsLeap(y) == (y % 4 = 0 /\ y % 100 # 0) \/ y % 400 = 0
DaysInYear(y) == IF IsLeap(y) THEN 366 ELSE 365
DaysBeforeYear(y) == LET p == y - 1 IN p * 365 + p \div 4 - p \div 100 + p \div 400
DaysInMonth(y, m) ==
  CASE m \in {1, 3, 5, 7, 8, 10, 12} -> 31 [] m \in {4, 6, 9, 11} -> 30 [] OTHER -> IF IsLeap(y) THEN 29 ELSE 28
RECURSIVE DaysBeforeMonth(_, _)
DaysBeforeMonth(y, m) == IF m = 1 THEN 0 ELSE DaysBeforeMonth(y, m - 1) + DaysInMonth(y, m - 1)
Ordinal(y, m, d) == DaysBeforeYear(y) + DaysBeforeMonth(y, m) + d

(* year of ordinal N: 400/100/4/1-year cycles *)
YearOf(N) ==
  LET n0 == N - 1
      n400 == n0 \div 146097  r400 == n0 % 146097
      n100 == r400 \div 36524  r100 == r400 % 36524
      n4 == r100 \div 1461     r4 == r100 % 1461
      n1 == r4 \div 365
      y == n400 * 400 + n100 * 100 + n4 * 4 + n1 + 1
  IN IF n1 = 4 \/ n100 = 4 THEN y - 1 ELSE y
DayOfYear(N) == N - DaysBeforeYear(YearOf(N))
MonthOf(N) == LET y == YearOf(N)  doy == DayOfYear(N) IN
              CHOOSE m \in 1..12 : DaysBeforeMonth(y, m) < doy /\ doy <= DaysBeforeMonth(y, m) + DaysInMonth(y, m)
DayOf(N) == DayOfYear(N) - DaysBeforeMonth(YearOf(N), MonthOf(N))
Weekday(N) == (N + 6) % 7                    \* Monday = 0 (0001-01-01 was a Monday)
IsoWeekday(N) == Weekday(N) + 1
Quarter(N) == (MonthOf(N) + 2) \div 3
(* ISO 8601 weeks: week 1 is the week with the year's first Thursday *)
WeeksInYear(y) == LET j == Weekday(Ordinal(y, 1, 1)) IN IF j = 3 \/ (j = 2 /\ IsLeap(y)) THEN 53 ELSE 52
IsoWeek(N) ==
  LET y == YearOf(N)  w == (DayOfYear(N) - IsoWeekday(N) + 10) \div 7 IN
  IF w < 1 THEN WeeksInYear(y - 1) ELSE IF w > WeeksInYear(y) THEN 1 ELSE w

Extract(f, N, sod, us) ==      \* sod = second of day, us = microsecond
  CASE f = "year" -> YearOf(N) [] f = "month" -> MonthOf(N) [] f = "day" -> DayOf(N)
    [] f = "hour" -> sod \div 3600 [] f = "minute" -> (sod % 3600) \div 60 [] f = "second" -> sod % 60
    [] f = "microsecond" -> us [] f = "weekday" -> Weekday(N) [] f = "isoweekday" -> IsoWeekday(N)
    [] f = "isoweek" -> IsoWeek(N) [] f = "quarter" -> Quarter(N)

(* laws checked by CalendarMC *)
LawsAt(N) ==
  /\ Ordinal(YearOf(N), MonthOf(N), DayOf(N)) = N
  /\ MonthOf(N) \in 1..12 /\ DayOf(N) \in 1..DaysInMonth(YearOf(N), MonthOf(N))
  /\ Weekday(N + 1) = (Weekday(N) + 1) % 7
  /\ IsoWeek(N) \in 1..53
  /\ (Weekday(N + 1) # 0 => IsoWeek(N + 1) = IsoWeek(N))                 \* the week number changes on Mondays only
  /\ (Weekday(N + 1) = 0 => IsoWeek(N + 1) = IsoWeek(N) + 1 \/ IsoWeek(N + 1) = 1)
  /\ (MonthOf(N) = 1 /\ DayOf(N) = 4 => IsoWeek(N) = 1)                   \* January 4th is always in week 1
  /\ (MonthOf(N) = 12 /\ DayOf(N) = 28 => IsoWeek(N) \in {52, 53})        \* December 28th is always in the last week
  /\ Quarter(N) \in 1..4
=============================================================================
