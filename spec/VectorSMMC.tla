----------------------------- MODULE VectorSMMC -----------------------------
EXTENDS VectorSM, TLC
VARIABLES bufs, last
Init == bufs = <<<<0, NA, 2>>>> /\ last = <<0, 0>>
Call == Len(bufs) < 4 /\ \E v \in DOMAIN bufs : bufs' = CallStep(bufs, v) /\ last' = <<v, Len(bufs) + 1>>
Pk == \E b \in DOMAIN bufs, i \in 1..3 : bufs[b][i] # 4 /\ bufs' = Poke(bufs, b, i, 4) /\ last' = <<b, 0>>
Next == Call \/ Pk
Spec == Init /\ [][Next]_<<bufs, last>>
(* a poke into one buffer changes no other buffer; a call changes no existing buffer *)
Local == [][\A b \in DOMAIN bufs : (b # last'[1] \/ last'[2] # 0) => bufs'[b] = bufs[b]]_<<bufs, last>>
=============================================================================
