-------------------------------- MODULE AggJit --------------------------------
(* C08 - Numba acceleration never changes aggregation results, whatever was
   compiled before, in this process or in an earlier one sharing the JIT cache.

   The contract (layer 1) is that the result of a call is a function of the call
   alone - it does not read mem / disk.  The machine exists to enumerate the
   history space the statement quantifies over, and to predict for each call
   whether its kernel specialisation is compiled, loaded from the cache or
   reused (layer 2, confirmed from numba's dispatcher statistics).             *)
EXTENDS Integers, Sequences, FiniteSets

Generic == {"all", "any", "count", "max", "mean", "median", "min", "std", "sum", "var"}
Kernel(h) == IF h \in Generic THEN "generic:" \o h
             ELSE IF h \in {"first", "last", "nth"} THEN "nth" ELSE h
(* kernels whose jitted list mixes values and None (default=None) *)
Optional(h) == h \in {"max", "min", "mode", "first", "last", "nth"}
SpecOf(h, kind) == <<Kernel(h), IF h \in {"all", "any"} THEN "bool" ELSE IF h = "quantile" THEN "float" ELSE kind>>

(* each dtype a helper accepts (others are not generated) *)
Accepts(h, kind) == kind \in {"bool", "int", "float", "float32"} \/ h \in {"count", "count_unique", "first", "last", "nth", "mode", "min", "max"}

(* state: mem = specialisations in this interpreter; disk = on-disk cache; cacheOn fixed per process.
   Layer 2 (JitMech, a named deviation - see KF-C08-optional-order): compiling the max/min kernel
   (generic with default=None) for a kind in an interpreter damages every nth/mode specialisation of
   that kind compiled later in the same interpreter; the damage stays with the specialisation
   (reuse, cache write, later cache load).
     optgen = kinds whose max/min kernel was compiled (not loaded) in this interpreter
     bmem / bdisk = damaged specialisations in memory / in the cache                              *)
InitJit == [mem |-> {}, disk |-> {}, cacheOn |-> TRUE, optgen |-> {}, bmem |-> {}, bdisk |-> {}]
Status(j, h, kind) ==
  IF SpecOf(h, kind) \in j.mem THEN "reused"
  ELSE IF j.cacheOn /\ SpecOf(h, kind) \in j.disk THEN "loaded" ELSE "compiled"
Victim(h) == Kernel(h) \in {"nth", "mode"}
Broken(j, h, kind) ==
  LET st == Status(j, h, kind)  sp == SpecOf(h, kind) IN
  IF st = "reused" THEN sp \in j.bmem
  ELSE IF st = "loaded" THEN sp \in j.bdisk
  ELSE Victim(h) /\ sp[2] \in j.optgen
AfterCall(j, h, kind) ==
  LET st == Status(j, h, kind)  sp == SpecOf(h, kind)  br == Broken(j, h, kind) IN
  [j EXCEPT !.mem = @ \cup {sp},
            !.disk = IF j.cacheOn THEN @ \cup {sp} ELSE @,
            !.optgen = IF h \in {"max", "min"} /\ st = "compiled" THEN @ \cup {sp[2]} ELSE @,
            !.bmem = IF br THEN @ \cup {sp} ELSE @,
            !.bdisk = IF j.cacheOn /\ st = "compiled" THEN (IF br THEN @ \cup {sp} ELSE @ \ {sp}) ELSE @]
NewProcess(j, cache) == [j EXCEPT !.mem = {}, !.cacheOn = cache, !.optgen = {}, !.bmem = {}]
Wipe(j) == [j EXCEPT !.disk = {}, !.bdisk = {}]

(* Dispatch by arguments: with Numba on, a call still takes the pure-Python path when its arguments need it -
   std / var with ddof # 0 (Numba's np.std has no ddof), and median keeping the missing values of a column that holds
   some (Numba's np.median does not propagate NaN; FX-C08-median-nan).  Such a call compiles, loads and damages nothing. *)
PyCapable == {"std", "var", "median"}
IsPy(e) == "py" \in DOMAIN e /\ e.py
RECURSIVE Replay(_, _, _)
Replay(j, hist, i) ==      \* the JIT state after the first i events of hist
  IF i = 0 THEN j
  ELSE LET p == Replay(j, hist, i - 1)  e == hist[i] IN
       IF e.t = "call" /\ IsPy(e) THEN p
       ELSE IF e.t = "call" THEN (IF "h2" \in DOMAIN e /\ e.h2 # "" THEN AfterCall(AfterCall(p, e.h, e.kind), e.h2, e.kind)
                             ELSE AfterCall(p, e.h, e.kind))
       ELSE IF e.t = "proc" THEN NewProcess(p, e.cache) ELSE Wipe(p)

(* verdict for one executed call e of a recorded history:
   e.eq[g]    numba result equals python result for group g (value / missing position)
   e.sametype numba and python result columns have the same type class            *)
Judge(e) ==
  IF e.err # "" THEN "C08:raised-under-numba"
  ELSE IF ~e.sametype THEN "C08:result-type-differs-from-python"
  ELSE IF \E g \in DOMAIN e.eq : ~e.eq[g] THEN "C08:numba-result-differs-from-python"
  ELSE IF ~e.sametype2 THEN "C08:result-type-differs-from-python(second-helper-of-the-call)"
  ELSE IF \E g \in DOMAIN e.eq2 : ~e.eq2[g] THEN "C08:numba-result-differs-from-python(second-helper-of-the-call)"
  ELSE ""
=============================================================================
