-------------------------------- MODULE Render --------------------------------
(* C20 - text rendering: total, side-effect free, structurally faithful.

   Input of a data frame rendering (abstract): nrow, cols (names), maxRows, maxWidth and the
   display widths  w[c] = padded width of column c (max of name, dtype label, shown cells),
   g = width of the row-number gutter.
   Observation (parsed from the returned string):
     blocks : Seq([lineW : Seq(Nat), names : Seq(name), nlabels : Nat, dataRows : Nat])
     total  : the number in the "... N rows total" line, or -1
     stray  : some line (between two "\n") still holds a line boundary character (\r, \v, \f, U+2028, ...)   *)
EXTENDS Integers, Sequences, FiniteSets

Min2(a, b) == IF a < b THEN a ELSE b
Rng(s) == {s[i] : i \in DOMAIN s}
RECURSIVE SumSeq(_)
SumSeq(s) == IF s = <<>> THEN 0 ELSE s[1] + SumSeq(Tail(s))
RECURSIVE Cat(_)
Cat(ss) == IF ss = <<>> THEN <<>> ELSE ss[1] \o Cat(Tail(ss))

(* ---------------- layer 1: what every rendering of a frame must satisfy ---------------- *)
EveryNameShown(in, o) == Rng(Cat([b \in DOMAIN o.blocks |-> o.blocks[b].names])) = Rng(in.cols)
EveryLabelShown(in, o) == SumSeq([b \in DOMAIN o.blocks |-> o.blocks[b].nlabels]) = Len(in.cols)
RowsShown(in, o) == \A b \in DOMAIN o.blocks : o.blocks[b].dataRows = Min2(in.nrow, in.maxRows)
EqualWidthInBlock(o) == \A b \in DOMAIN o.blocks : \A x, y \in DOMAIN o.blocks[b].lineW : o.blocks[b].lineW[x] = o.blocks[b].lineW[y]
TotalStated(in, o) == IF in.maxRows < in.nrow THEN o.total = in.nrow ELSE o.total = -1

JudgeFrame(e) ==
  LET in == e.in  o == e.obs IN
  IF e.err # "" THEN "render:raised:" \o e.how
  ELSE IF ~e.pure THEN "render:object-changed-by:" \o e.how
  ELSE IF in.cols = <<>> THEN (IF e.empty THEN "" ELSE "frame:zero-column-frame-not-rendered-as-empty-string")
  ELSE IF ~o.wellformed THEN "frame:rendering-does-not-have-the-block-structure"
  ELSE IF ~EveryNameShown(in, o) THEN "frame:a-column-name-is-not-shown"
  ELSE IF ~EveryLabelShown(in, o) THEN "frame:a-dtype-label-is-not-shown"
  ELSE IF o.stray THEN "frame:a-line-boundary-character-of-a-cell-survives-inside-a-line"   \* multi-line strings are shown by their first line
  ELSE IF ~RowsShown(in, o) THEN "frame:not-min(nrow,max_rows)-data-rows-shown"
  ELSE IF ~EqualWidthInBlock(o) THEN "frame:lines-of-a-block-differ-in-display-width"
  ELSE IF ~TotalStated(in, o) THEN "frame:total-row-count-not-stated-exactly-when-rows-are-cut"
  ELSE ""
JudgeAny(e) ==
  IF e.err # "" THEN "render:raised:" \o e.cls \o "." \o e.how
  ELSE IF ~e.pure THEN "render:object-changed-by:" \o e.cls \o "." \o e.how
  ELSE IF ~e.shape_ok THEN "render:" \o e.cls \o "-text-lacks-its-documented-structure"
  ELSE ""
Judge(e) == IF e.k = "frame" THEN JudgeFrame(e) ELSE JudgeAny(e)

(* ---------------- layer 2: the batch loop of DataFrame.to_string (RenderMech) ---------------- *)
(* ws : Seq of column widths, g : gutter width, mw : max_width.
   The first remaining column is always taken; further columns while the line still fits.    *)
RECURSIVE TakeWhile(_, _, _, _)
TakeWhile(ws, i, cur, mw) ==        \* how many more columns (from index i) join a line currently cur wide
  IF i > Len(ws) THEN 0
  ELSE IF cur + ws[i] + 1 > mw THEN 0
  ELSE 1 + TakeWhile(ws, i + 1, cur + 1 + ws[i], mw)
RECURSIVE Batches(_, _, _, _)
Batches(ws, i, g, mw) ==            \* Seq of <<first index, count>>
  IF i > Len(ws) THEN <<>>
  ELSE LET k == 1 + TakeWhile(ws, i + 1, g + 1 + ws[i], mw) IN <<<<i, k>>>> \o Batches(ws, i + k, g, mw)
BlockWidth(ws, bt, g) == g + SumSeq([t \in 1..bt[2] |-> 1 + ws[bt[1] + t - 1]])

MechOK(ws, g, mw) ==               \* the mechanism satisfies layer 1: every column in exactly one block, in order
  LET B == Batches(ws, 1, g, mw) IN
  /\ SumSeq([b \in DOMAIN B |-> B[b][2]]) = Len(ws)
  /\ \A b \in DOMAIN B : B[b][2] >= 1
  /\ \A b \in DOMAIN B : b > 1 => B[b][1] = B[b-1][1] + B[b-1][2]
  /\ (Len(ws) > 0 => B[1][1] = 1)
  /\ \A b \in DOMAIN B : B[b][2] > 1 => BlockWidth(ws, B[b], g) <= mw      \* only a lone column may exceed max_width
=============================================================================
