-------------------------------- MODULE LoDSM --------------------------------
(* C17 - ListOfDicts object graph: shared item dicts, derivation tree,
   obsolescence flags and the once-only warning.

   st.items : Seq of item contents (ItemId = position)
   st.lists : Seq of [its   : Seq(ItemId),
                      share : set of ListIds it was obtained from through a method handing on the same dicts,
                      deriv : set of ListIds it was obtained from at all,
                      flag  : "no" | "yes" | "free"   (must not / must / may report itself obsolete),
                      oflag : BOOLEAN  last observed obsolete flag (FALSE in the pure model),
                      warned: BOOLEAN]
   st.hp    : Seq of heap numbers, one per item: two items with different heap numbers cannot hold a common
              value object (a container stored under some key).  Methods that build new dicts from old ones
              (select, rename) or merge dicts (inner/left join) hand on the value objects: same heap.  Only
              deepcopy (and literals given to append / insert) start a new heap.  Deliberately coarse.
   An event e = [k (kind), x (receiver), o (other list or 0), a (LoDOps argument record)].        *)
EXTENDS LoDJoin

IdKey == "_id"
Mat(st, l) == [i \in DOMAIN st.lists[l].its |-> Put(st.items[st.lists[l].its[i]], IdKey, st.lists[l].its[i])]
Plain(st, l) == [i \in DOMAIN st.lists[l].its |-> st.items[st.lists[l].its[i]]]
Ids(seq) == [i \in DOMAIN seq |-> seq[i][IdKey]]
NoId(it) == Without(it, {IdKey})

SharingUnary == {"filter", "filter_out", "filter_kv", "filter_out_kv", "sort", "unique", "head", "tail", "slice",
                 "copy", "reverse", "mul", "drop_na"}
InPlace      == {"modify", "modify_if", "fill", "fill_all", "unselect"}
Rebuilding   == {"select", "rename"}                 \* marked as editors, but build new dicts
Editors      == InPlace \cup Rebuilding \cup {"inner", "left"}
Readers      == {"keys", "pluck"}                    \* return a value, create no list (but count as a use of the receiver)
(* "poke": the user assigns into the dict at position a.i of list x directly (item["b"] = v, or into a container held
   there) - not a method of the class: no list is created, no flag moves, and only that one dict changes.  It makes
   "a later modification of a copy is never observable through the original" a checkable step.              *)
NonModifying == SharingUnary \cup Readers \cup {"sample", "append", "insert", "extend", "add", "semi", "anti", "deepcopy"}
(* what a reader returns is a function of the receiver's current items alone (whatever was read or derived before) *)
ReaderOK(st, e, ret) ==
  LET L == [i \in DOMAIN st.lists[e.x].its |-> st.items[st.lists[e.x].its[i]]] IN
  IF e.a.op = "keys" THEN Range(ret) = AllKeys(L) /\ Len(ret) = Cardinality(AllKeys(L))
  ELSE Len(ret) = Len(L) /\ \A i \in DOMAIN L : ret[i] = IF Has(L[i], e.a.k) THEN L[i][e.a.k] ELSE None

RECURSIVE AncVia(_, _, _)
AncVia(st, S, useShare) ==         \* all ancestors of the lists in S along share (or deriv) edges
  LET step == S \cup UNION {IF useShare THEN st.lists[l].share ELSE st.lists[l].deriv : l \in S}
  IN  IF step = S THEN S ELSE AncVia(st, step, useShare)

MaxHp(st) == IF st.hp = <<>> THEN 0 ELSE CHOOSE m \in Range(st.hp) : \A h \in Range(st.hp) : h <= m
Unify(hp, S) == IF S = {} THEN hp ELSE LET m == CHOOSE x \in S : \A y \in S : x <= y IN [i \in DOMAIN hp |-> IF hp[i] \in S THEN m ELSE hp[i]]
HpOf(st, l) == {st.hp[st.lists[l].its[i]] : i \in DOMAIN st.lists[l].its}
NewList(its, share, deriv) == [its |-> its, share |-> share, deriv |-> deriv, flag |-> "no", oflag |-> FALSE, warned |-> FALSE]
Fresh(st, n) == [i \in 1..n |-> Len(st.items) + i]

(* flags after an editor ran on x: share-ancestors and x must be obsolete; other ancestors become free *)
Flagged(st, x) ==
  LET must == AncVia(st, {x}, TRUE)
      may  == AncVia(st, {x}, FALSE) \ must
  IN [l \in DOMAIN st.lists |->
        IF l \in must THEN [st.lists[l] EXCEPT !.flag = "yes"]
        ELSE IF l \in may /\ st.lists[l].flag = "no" THEN [st.lists[l] EXCEPT !.flag = "free"]
        ELSE st.lists[l]]

Renamed(e) == "ren" \in DOMAIN e.a /\ e.a.ren
(* right-hand items as seen by the join: with by = ("a", "aa") the right key "aa" plays the role of "a" *)
RightOf(st, e) == IF Renamed(e) THEN [i \in DOMAIN Plain(st, e.o) |-> RenameItem(Plain(st, e.o)[i], <<<<"a", "aa">>>>)]
                  ELSE Plain(st, e.o)

(* The post-state of event e (deterministic events only; "sample" is judged by predicate). *)
Step(st, e) ==
  LET x == e.x  op == e.a.op  L == Mat(st, x) IN
  IF op \in SharingUnary THEN
       [items |-> st.items, hp |-> st.hp,
        lists |-> Append(st.lists, NewList(Ids(Apply(L, e.a)), {x}, {x}))]
  ELSE IF op \in {"append", "insert"} THEN
       LET nid == Len(st.items) + 1
           out == Apply(L, [e.a EXCEPT !.item = Put(e.a.item, IdKey, nid)]) IN
       [items |-> Append(st.items, e.a.item), hp |-> Append(st.hp, MaxHp(st) + 1),
        lists |-> Append(st.lists, NewList(Ids(out), {x}, {x}))]
  ELSE IF op \in {"extend", "add"} THEN
       [items |-> st.items, hp |-> st.hp,
        lists |-> Append(st.lists, NewList(st.lists[x].its \o st.lists[e.o].its, {x, e.o}, {x, e.o}))]
  ELSE IF op \in {"semi", "anti"} THEN
       LET R == RightOf(st, e)
           P(it) == IF op = "semi" THEN FirstMatch(it, R, <<"a">>) # 0 ELSE FirstMatch(it, R, <<"a">>) = 0 IN
       [items |-> st.items, hp |-> st.hp,
        lists |-> Append(st.lists, NewList(Ids(SelSeq(L, P)), {x}, {x, e.o}))]
  ELSE IF op = "deepcopy" THEN
       [items |-> st.items \o Plain(st, x), hp |-> st.hp \o [i \in DOMAIN L |-> MaxHp(st) + 1],
        lists |-> Append(st.lists, NewList(Fresh(st, Len(L)), {}, {x}))]
  ELSE IF op \in InPlace THEN
       LET out == Apply(L, e.a)
           new(id) == NoId(out[CHOOSE i \in DOMAIN out : out[i][IdKey] = id]) IN
       [items |-> [id \in DOMAIN st.items |-> IF id \in Range(st.lists[x].its) THEN new(id) ELSE st.items[id]], hp |-> st.hp,
        lists |-> Append(Flagged(st, x), NewList(st.lists[x].its, {x}, {x}))]
  ELSE IF op \in Rebuilding THEN
       LET out == Apply(Plain(st, x), e.a) IN
       [items |-> st.items \o out, hp |-> st.hp \o [i \in DOMAIN out |-> st.hp[st.lists[x].its[i]]],
        lists |-> Append(Flagged(st, x), NewList(Fresh(st, Len(out)), {}, {x}))]
  ELSE IF op = "poke" THEN
       LET id == st.lists[x].its[e.a.i + 1] IN
       [items |-> [st.items EXCEPT ![id] = Put(@, "b", e.a.v)], hp |-> st.hp, lists |-> st.lists]
  ELSE IF op \in {"inner", "left"} THEN
       LET R == RightOf(st, e)
           keep == IF op = "left" THEN L ELSE LET P(it) == FirstMatch(it, R, <<"a">>) # 0 IN SelSeq(L, P)
           new(id) == NoId(Merged(Put(st.items[id], IdKey, id), R, <<"a">>)) IN
       [items |-> [id \in DOMAIN st.items |-> IF id \in Range(Ids(keep)) THEN new(id) ELSE st.items[id]],
        hp |-> Unify(st.hp, HpOf(st, x) \cup HpOf(st, e.o)),       \* merged dicts take the right items' value objects
        lists |-> Append(Flagged(st, x), NewList(Ids(keep), {x}, {x, e.o}))]
  ELSE st

(* what the event needs in order to be a supported input *)
EventOK(st, e) ==
  /\ e.x \in DOMAIN st.lists
  /\ (e.a.op \in {"extend", "add", "semi", "anti", "inner", "left"} => e.o \in DOMAIN st.lists)
  /\ (e.a.op \in {"semi", "anti", "inner", "left"} =>
         IF Renamed(e) THEN AllHave(Plain(st, e.o), {"aa"}) /\ \A i \in DOMAIN Plain(st, e.o) : ~Has(Plain(st, e.o)[i], "a")
         ELSE AllHave(Plain(st, e.o), {"a"}))
  /\ (e.a.op \in {"semi", "anti", "inner", "left"} => AllHave(Plain(st, e.x), {"a"}))
  /\ (e.a.op \in {"inner", "left"} =>      \* non-key fields present on both sides: free point, not generated
         \A i \in DOMAIN Plain(st, e.x), m \in DOMAIN RightOf(st, e) :
            (DOMAIN Plain(st, e.x)[i] \cap DOMAIN RightOf(st, e)[m]) \subseteq {"a"})
  /\ (e.a.op \notin {"extend", "add", "semi", "anti", "inner", "left", "deepcopy", "sample", "poke"} \cup Readers => Supported(Plain(st, e.x), e.a))
  /\ (e.a.op = "unique" => e.a.keys # <<>>)
  /\ (e.a.op = "poke" => e.a.i + 1 \in DOMAIN st.lists[e.x].its)

(* ---------------- invariants of the model ---------------- *)
ListsWF(st) == \A l \in DOMAIN st.lists : Range(st.lists[l].its) \subseteq DOMAIN st.items
RECURSIVE Component(_, _)
Component(st, S) ==
  LET nxt == S \cup UNION {st.lists[l].share : l \in S}
                \cup {l \in DOMAIN st.lists : st.lists[l].share \cap S # {}}
  IN  IF nxt = S THEN S ELSE Component(st, nxt)
(* dicts are shared only inside one share-connected component: in particular a deep copy
   (and everything derived from it) never has an item in common with the original *)
SharingConfined(st) ==
  \A l1, l2 \in DOMAIN st.lists :
     Range(st.lists[l1].its) \cap Range(st.lists[l2].its) # {} => l2 \in Component(st, {l1})
DerivAcyclic(st) == \A l \in DOMAIN st.lists : \A p \in st.lists[l].deriv : p < l
ShareInDeriv(st) == \A l \in DOMAIN st.lists : st.lists[l].share \subseteq st.lists[l].deriv
NewestNotObsolete(st) == st.lists = <<>> \/ st.lists[Len(st.lists)].flag = "no"
HeapWF(st) == Len(st.hp) = Len(st.items)
(* a deep copy shares no value object with anything that existed before it *)
DeepcopyIsolated(st, e) ==
  e.a.op = "deepcopy" => \A i \in (Len(st.items) + 1)..Len(Step(st, e).items) : Step(st, e).hp[i] \notin Range(st.hp)
ModelInv(st) == HeapWF(st) /\ ListsWF(st) /\ SharingConfined(st) /\ DerivAcyclic(st) /\ ShareInDeriv(st) /\ NewestNotObsolete(st)

(* action properties *)
NonModifyingLeavesItems(st, e) ==
  e.a.op \in NonModifying => SubSeq(Step(st, e).items, 1, Len(st.items)) = st.items
EditorsFlag(st, e) ==
  e.a.op \in Editors =>
     /\ \A l \in AncVia(st, {e.x}, TRUE) : Step(st, e).lists[l].flag = "yes"
     /\ \A l \in DOMAIN st.lists \ AncVia(st, {e.x}, FALSE) : Step(st, e).lists[l].flag = st.lists[l].flag
     /\ \A l \in DOMAIN st.lists : st.lists[l].flag = "yes" => Step(st, e).lists[l].flag = "yes"
OnlyReceiverItemsEdited(st, e) ==
  \A id \in DOMAIN st.items : id \notin Range(st.lists[e.x].its) => Step(st, e).items[id] = st.items[id]
=============================================================================
