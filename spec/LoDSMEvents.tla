----------------------------- MODULE LoDSMEvents -----------------------------
(* The bounded event vocabulary shared by the exhaustive model check (LoDSMMC) and the behaviour generator (LoDSMGen). *)
EXTENDS LoDSM
It(a, b) == [k \in {"a", "b"} |-> IF k = "a" THEN a ELSE b]
InitSt == [items |-> <<It(0, None), It(1, 1), [a |-> 0]>>, hp |-> <<1, 1, 1>>,
           lists |-> <<NewList(<<1, 2, 3>>, {}, {})>>]
Preds == {[f |-> "a_eq", v |-> 0], [f |-> "b_notnone"], [f |-> "b_value"]}
Fns == {[f |-> "const", v |-> 1], [f |-> "from", k |-> "a"]}
UnaryArgs ==
       {[op |-> "filter", p |-> p] : p \in Preds} \cup {[op |-> "filter_out", p |-> p] : p \in Preds}
  \cup {[op |-> "sort", keys |-> <<"a">>, dirs |-> <<-1>>], [op |-> "unique", keys |-> <<"a">>],
        [op |-> "head", n |-> 1], [op |-> "tail", n |-> 2], [op |-> "reverse"], [op |-> "copy"], [op |-> "mul", n |-> 2],
        [op |-> "slice", lo |-> 1, hi |-> Unset, step |-> 1], [op |-> "drop_na", keys |-> <<"b">>],
        [op |-> "append", item |-> It(1, 0)], [op |-> "insert", i |-> 0, item |-> It(None, 0)],
        [op |-> "deepcopy"], [op |-> "fill_all"], [op |-> "fill", kv |-> <<<<"b", 0>>>>],
        [op |-> "select", keys |-> <<"a">>], [op |-> "unselect", keys |-> <<"b">>],
        [op |-> "rename", pairs |-> <<<<"x", "b">>>>]}
  \cup {[op |-> "modify", k |-> k, g |-> g] : k \in {"b", "x"}, g \in Fns}
  \cup {[op |-> "modify_if", p |-> p, k |-> "b", g |-> g] : p \in Preds, g \in Fns}
BinaryArgs == {[op |-> o] : o \in {"extend", "add", "semi", "anti", "inner", "left"}}
(* the user's own assignment into the first dict of a list (creates no list: kept apart from the list-creating events) *)
PokesOf(s) == {[x |-> x, o |-> 0, a |-> [op |-> "poke", i |-> 0, v |-> 0]] : x \in {y \in DOMAIN s.lists : s.lists[y].its # <<>>}}
EventsOf(s) == {[x |-> x, o |-> 0, a |-> a] : x \in DOMAIN s.lists, a \in UnaryArgs}
          \cup {[x |-> x, o |-> o, a |-> a] : x \in DOMAIN s.lists, o \in DOMAIN s.lists, a \in BinaryArgs}
=============================================================================
