-------------------------------- MODULE AggMC --------------------------------
EXTENDS Agg, TLC, Json
CONSTANTS MaxLen, Top, Emit
Vals == {v - 2 : v \in 0..Top}
VARIABLES xs, done
Init == xs = <<>> /\ done = FALSE
Grow == ~done /\ Len(xs) < MaxLen /\ \E v \in Vals \cup {NAv} : xs' = Append(xs, v) /\ done' = FALSE
Stop == ~done /\ done' = TRUE /\ xs' = xs /\ (Emit => PrintT(ToJson([xs |-> xs])))
Next == Grow \/ Stop
Spec == Init /\ [][Next]_<<xs, done>>
Inv == done => ModelOK(xs)
=============================================================================
