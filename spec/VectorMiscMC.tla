---------------------------- MODULE VectorMiscMC ----------------------------
(* Every pair of cell sequences up to MaxLen: laws of VectorMisc and symmetry of Equal. *)
EXTENDS VectorMisc, TLC
CONSTANTS MaxLen, PosCells
CellSet == {NA} \cup PosCells
VARIABLES xs, ys, turn
Init == xs = <<>> /\ ys = <<>> /\ turn = "x"
GrowX == turn = "x" /\ Len(xs) < MaxLen /\ \E c \in CellSet : xs' = Append(xs, c) /\ UNCHANGED <<ys, turn>>
Switch == turn = "x" /\ turn' = "y" /\ UNCHANGED <<xs, ys>>
GrowY == turn = "y" /\ Len(ys) < MaxLen /\ \E c \in CellSet : ys' = Append(ys, c) /\ UNCHANGED <<xs, turn>>
Next == GrowX \/ Switch \/ GrowY
Spec == Init /\ [][Next]_<<xs, ys, turn>>
Inv == /\ MiscLaws(xs)
       /\ Equal(xs, ys) = Equal(ys, xs)
       /\ (Equal(xs, ys) => \A n \in 0..Len(xs) : Equal(VHead(xs, n), VHead(ys, n)) /\ Equal(VTail(xs, n), VTail(ys, n)))
       /\ (Equal(xs, ys) => Equal(VSort(xs, 1), VSort(ys, 1)))
       /\ DropNA(xs \o ys) = DropNA(xs) \o DropNA(ys)
=============================================================================
