------------------------------- MODULE StoreMC -------------------------------
(* Enumerates behaviours of the file-system machine: writes (possibly overwriting, possibly to
   another suffix of the same stem) followed by reads with consistent options, whole and restricted. *)
EXTENDS Store, Json
CONSTANTS Owners, Fmts, Seps, Encs, MaxSteps, Emit, NContents
VARIABLES fs, hist, done
FmtOK(o, f) == IF o = "lod" THEN f \in {"pickle", "json", "csv"} ELSE TRUE
Cfgs == {[owner |-> o, fmt |-> f, sep |-> s, header |-> h, enc |-> n] :
           o \in Owners, f \in Fmts, s \in Seps, h \in BOOLEAN, n \in Encs}
NormalCfg(c) ==      \* options that a format does not have stay at their defaults
  /\ FmtOK(c.owner, c.fmt)
  /\ (c.fmt # "csv" => c.sep = "," /\ c.header)
  /\ (c.fmt \notin {"csv", "json"} => c.enc = "utf-8")
Restrictions == {<<>>, <<"a">>, <<"c", "a">>, <<"b", "c">>, <<"c", "b", "a">>}
Init == fs = EmptyFS /\ hist = <<>> /\ done = FALSE
Write == /\ ~done /\ Len(hist) < MaxSteps
         /\ \E c \in {x \in Cfgs : NormalCfg(x)}, sf \in Suffixes, st \in {"p", "q"}, k \in 1..NContents :
               LET e == [t |-> "write", owner |-> c.owner, fmt |-> c.fmt, sep |-> c.sep, header |-> c.header, enc |-> c.enc,
                         stem |-> st, suffix |-> sf, c |-> k] IN
               /\ (hist # <<>> => hist[1].owner = c.owner /\ hist[1].fmt = c.fmt)     \* one format per behaviour keeps the space small
               /\ fs' = WriteFS(fs, e) /\ hist' = Append(hist, e)
         /\ done' = FALSE
Read == /\ ~done /\ Len(hist) < MaxSteps /\ hist # <<>>
        /\ \E p \in DOMAIN fs, r \in Restrictions, al \in BOOLEAN, cs \in BOOLEAN :
              LET c == fs[p].cfg
                  e == [t |-> "read", owner |-> c.owner, fmt |-> c.fmt, sep |-> c.sep, header |-> c.header, enc |-> c.enc,
                        stem |-> p[1], suffix |-> p[2], cols |-> r, alias |-> al, cast |-> cs, expect |-> fs[p].c] IN
              /\ (r # <<>> => c.fmt \in {"csv", "json", "parquet"})          \* readers that take a restriction
              /\ (cs => c.fmt \in {"csv", "json", "parquet"} /\ (r = <<>> \/ "a" \in Range(r)))   \* ... and a dtype / type mapping (on column a)
              /\ (al => (c.owner = "df" /\ c.fmt \in {"csv", "npz", "parquet"}) \/ (c.owner = "lod" /\ c.fmt = "json"))
              /\ hist' = Append(hist, e) /\ fs' = fs
        /\ done' = FALSE
Stop == /\ ~done /\ hist # <<>> /\ hist[Len(hist)].t = "read"
        /\ done' = TRUE /\ UNCHANGED <<fs, hist>>
        /\ (Emit => PrintT(ToJson([hist |-> hist])))
Next == Write \/ Read \/ Stop
Spec == Init /\ [][Next]_<<fs, hist, done>>
Inv == ReallyCompressed(fs)
       /\ \A i \in DOMAIN hist : hist[i].t = "read" =>      \* ReadAfterWrite: a read expects the last write to that path
             \E w \in 1..(i-1) : /\ hist[w].t = "write" /\ hist[w].stem = hist[i].stem /\ hist[w].suffix = hist[i].suffix
                                 /\ hist[w].c = hist[i].expect
                                 /\ \A v \in (w+1)..(i-1) : ~(hist[v].t = "write" /\ hist[v].stem = hist[i].stem /\ hist[v].suffix = hist[i].suffix)
=============================================================================
