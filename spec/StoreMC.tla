------------------------------- MODULE StoreMC -------------------------------
(* Enumerates behaviours of the file-system machine: writes (possibly overwriting, possibly to
   another suffix of the same stem) followed by reads with consistent options, whole and restricted. *)
EXTENDS Store, Json
CONSTANTS Owners, Fmts, Seps, Encs, MaxSteps, Emit, NContents
VARIABLES fs, hist, done
FmtOK(o, f) == IF o = "lod" THEN f \in {"pickle", "json", "csv"}
              ELSE IF o = "geo" THEN f = "geojson" ELSE f # "geojson"
(* column names of the content classes (the cells are data of the harness; the names decide which restrictions make sense) *)
ColsOf(k) == CASE k = 5 -> {"a", "b", "c", "d"} [] k = 6 -> {"a", "b", "e"} [] OTHER -> {"a", "b", "c"}
ExtOK(c) == c.owner = "df" /\ c.fmt \in {"csv", "parquet"}     \* files another program can produce for a reader of ours
Cfgs == {[owner |-> o, fmt |-> f, sep |-> s, header |-> h, enc |-> n] :
           o \in Owners, f \in Fmts, s \in Seps, h \in BOOLEAN, n \in Encs}
NormalCfg(c) ==      \* options that a format does not have stay at their defaults
  /\ FmtOK(c.owner, c.fmt)
  /\ (c.fmt # "csv" => c.sep = "," /\ c.header)
  /\ (c.fmt \notin {"csv", "json", "geojson"} => c.enc = "utf-8")
Restrictions == {<<>>, <<"a">>, <<"c", "a">>, <<"b", "c">>, <<"c", "b", "a">>, <<"d", "b">>, <<"e", "a">>}
Init == fs = EmptyFS /\ hist = <<>> /\ done = FALSE
Write == /\ ~done /\ Len(hist) < MaxSteps
         /\ \E c \in {x \in Cfgs : NormalCfg(x)}, sf \in Suffixes, st \in {"p", "q"}, k \in 1..NContents, x \in BOOLEAN :
               LET e == [t |-> "write", owner |-> c.owner, fmt |-> c.fmt, sep |-> c.sep, header |-> c.header, enc |-> c.enc,
                         stem |-> st, suffix |-> sf, c |-> k, ext |-> x] IN
               /\ (x => ExtOK(c) /\ sf = "" /\ c.enc = "utf-8")
               /\ (k = 7 => c.owner = "df" /\ c.fmt = "csv" /\ ~x)       \* class 7 (a file larger than a reader's block) only through CSV
               /\ (~c.header => k # 6)      \* without a header line the reader names the columns a, b, c, ...: class 6 is not so named
               /\ (hist # <<>> => hist[1].owner = c.owner /\ hist[1].fmt = c.fmt)     \* one format per behaviour keeps the space small
               /\ fs' = WriteFS(fs, e) /\ hist' = Append(hist, e)
         /\ done' = FALSE
Read == /\ ~done /\ Len(hist) < MaxSteps /\ hist # <<>>
        /\ \E p \in DOMAIN fs, r \in Restrictions, al \in BOOLEAN, cs \in {"", "float", "object", "str"} :
              LET c == fs[p].cfg
                  e == [t |-> "read", owner |-> c.owner, fmt |-> c.fmt, sep |-> c.sep, header |-> c.header, enc |-> c.enc,
                        stem |-> p[1], suffix |-> p[2], cols |-> r, alias |-> al, cast |-> cs, expect |-> fs[p].c] IN
              /\ (r # <<>> => c.fmt \in {"csv", "json", "parquet", "geojson"} /\ Range(r) \subseteq ColsOf(fs[p].c))   \* readers that take a restriction
              /\ (cs = "float" => c.fmt \in {"csv", "json", "parquet", "geojson"} /\ (r = <<>> \/ "a" \in Range(r)))   \* ... and a dtype / type mapping (on column a)
              /\ (cs \in {"object", "str"} => /\ c.owner # "lod" /\ c.fmt \in {"csv", "parquet", "geojson"}          \* ... or on column c
                                               /\ "c" \in ColsOf(fs[p].c) /\ (r = <<>> \/ "c" \in Range(r)))
              /\ (al => \/ (c.owner = "df" /\ c.fmt \in {"csv", "npz", "parquet"}) \/ (c.owner = "lod" /\ c.fmt = "json")
                        \/ c.owner = "geo")
              /\ (fs[p].ext => r # <<>> \/ al \/ cs # "")               \* foreign files: only the C14 questions are asked
              /\ hist' = Append(hist, e) /\ fs' = fs
        /\ done' = FALSE
Stop == /\ ~done /\ hist # <<>> /\ hist[Len(hist)].t = "read"
        /\ done' = TRUE /\ UNCHANGED <<fs, hist>>
        /\ (Emit => PrintT(ToJson([hist |-> hist])))
Next == Write \/ Read \/ Stop
Spec == Init /\ [][Next]_<<fs, hist, done>>
Inv == ReallyCompressed(fs)
       /\ \A i \in DOMAIN hist : hist[i].t = "read" =>      \* ReadAfterWrite: a read expects the last write to that path
             \E w \in 1..(i-1) : /\ hist[w].t = "write" /\ hist[w].stem = hist[i].stem /\ hist[w].suffix = hist[i].suffix
                                 /\ hist[w].c = hist[i].expect
                                 /\ \A v \in (w+1)..(i-1) : ~(hist[v].t = "write" /\ hist[v].stem = hist[i].stem /\ hist[v].suffix = hist[i].suffix)
=============================================================================
