------------------------------- MODULE Compare -------------------------------
(* Beyond the listed properties: DataFrame.compare(other, by) - "added rows, removed rows, changed values" -
   stated with the join operators of JoinOps.  X and Y have the key column k (unique in each, by class, a missing
   key never matches) and the value column j.
   e = [X, Y, added (frame), addedNone, removed (frame), removedNone, changed (Seq of [k, x, y]), changedNone, err]      *)
EXTENDS JoinOps

By == <<"k">>
UniqueKeys(F) == \A a, b \in 1..NRow(F) : a # b => K(F.cell["k"][a]) # K(F.cell["k"][b])
Supported(X, Y) == UniqueKeys(X) /\ UniqueKeys(Y)
Added(X, Y) == AntiJoin(X, Y, By)
Removed(X, Y) == AntiJoin(Y, X, By)
Matched(X, Y) == IdxSeq({i \in 1..NRow(X) : Match(X, Y, By, i) # 0})
Differs(X, Y, i) == K(X.cell["j"][i]) # K(Y.cell["j"][Match(X, Y, By, i)])      \* both missing: no change; twins: no change
ChangedIdx(X, Y) == IdxSeq({i \in 1..NRow(X) : Match(X, Y, By, i) # 0 /\ Differs(X, Y, i)})
Changed(X, Y) == [t \in DOMAIN ChangedIdx(X, Y) |->
                    LET i == ChangedIdx(X, Y)[t] IN
                    [k |-> X.cell["k"][i], x |-> X.cell["j"][i], y |-> Y.cell["j"][Match(X, Y, By, i)]]]
SameChange(a, b) == K(a.k) = K(b.k) /\ K(a.x) = K(b.x) /\ K(a.y) = K(b.y)

JudgeCompare(e) ==
  IF ~Supported(e.X, e.Y) THEN (IF e.err # "" THEN "" ELSE "compare:non-unique-identifiers-not-rejected")
  ELSE IF e.err # "" THEN "compare:raised"
  ELSE IF e.addedNone # (NRow(Added(e.X, e.Y)) = 0) \/ (~e.addedNone /\ ~SameTable(e.added, Added(e.X, e.Y)))
       THEN "compare:added-is-not-the-rows-of-self-without-a-partner"
  ELSE IF e.removedNone # (NRow(Removed(e.X, e.Y)) = 0) \/ (~e.removedNone /\ ~SameTable(e.removed, Removed(e.X, e.Y)))
       THEN "compare:removed-is-not-the-rows-of-other-without-a-partner"
  ELSE IF e.changedNone # (Changed(e.X, e.Y) = <<>>) THEN "compare:changed-present-iff-some-matched-value-differs"
  ELSE IF ~e.changedNone /\ ~(/\ Len(e.changed) = Len(Changed(e.X, e.Y))
                              /\ \A t \in DOMAIN e.changed : SameChange(e.changed[t], Changed(e.X, e.Y)[t]))
       THEN "compare:changed-is-not-one-row-per-differing-value-of-matched-rows"
  ELSE ""

(* laws (model-checked): comparing with itself finds nothing; added and removed swap with the operands;
   every row of X is added, changed or unchanged - never two of these *)
CompareLaws(X, Y) ==
  Supported(X, Y) =>
    /\ Changed(X, X) = <<>>
    /\ ((\A i \in 1..NRow(X) : X.cell["k"][i] # NA) => NRow(Added(X, X)) = 0)     \* a row with a missing identifier has no partner, not even itself
    /\ SameTable(Added(X, Y), Removed(Y, X))
    /\ Len(Changed(X, Y)) = Len(Changed(Y, X))
    /\ NRow(Added(X, Y)) + Len(Matched(X, Y)) = NRow(X)
    /\ Len(Changed(X, Y)) <= Len(Matched(X, Y))
=============================================================================
