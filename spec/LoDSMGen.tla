------------------------------- MODULE LoDSMGen -------------------------------
(* Behaviour generator: every behaviour of the session machine up to MaxLists lists, with its event history,
   emitted as one JSON line when it is complete - replayed call by call on the real class (spec -> code). *)
EXTENDS LoDSMEvents, TLC, Json
CONSTANTS MaxLists, MaxItems
VARIABLES st, hist
Init == st = InitSt /\ hist = <<>>
Next == /\ Len(st.lists) < MaxLists /\ Len(st.items) <= MaxItems
        /\ \E e \in EventsOf(st) :
              /\ EventOK(st, e) /\ st' = Step(st, e) /\ hist' = Append(hist, e)
              /\ (Len(st'.lists) = MaxLists => PrintT(ToJson([hist |-> hist'])))
Spec == Init /\ [][Next]_<<st, hist>>
Inv == ModelInv(st)
=============================================================================
