------------------------------- MODULE LoDSMGen -------------------------------
(* Behaviour generator: every behaviour of the session machine up to MaxLists lists, with its event history,
   emitted as one JSON line when it is complete - replayed call by call on the real class (spec -> code). *)
EXTENDS LoDSMEvents, TLC, Json
CONSTANTS MaxLists, MaxItems, PreEvents      \* PreEvents: which optional calls may precede an event ("" = none)
VARIABLES st, hist
Init == st = InitSt /\ hist = <<>>
Next == /\ Len(st.lists) < MaxLists /\ Len(st.items) <= MaxItems
        /\ \E e \in EventsOf(st), rd \in PreEvents :
              \* optionally a reader is called on the receiver first (readers do not change the state: at most one per event)
              /\ LET pre == [x |-> e.x, o |-> 0, a |-> IF rd = "keys" THEN [op |-> "keys"]
                                                       ELSE IF rd = "pluck" THEN [op |-> "pluck", k |-> "b"]
                                                       ELSE [op |-> "poke", i |-> 0, v |-> 0]]
                      mid == IF rd = "poke" /\ st.lists[e.x].its # <<>> THEN Step(st, pre) ELSE st IN
                 /\ (rd = "poke" => st.lists[e.x].its # <<>>)
                 /\ EventOK(mid, e) /\ st' = Step(mid, e)
                 /\ hist' = IF rd = "" THEN Append(hist, e) ELSE Append(Append(hist, pre), e)
              /\ (Len(st'.lists) = MaxLists => PrintT(ToJson([hist |-> hist'])))
Spec == Init /\ [][Next]_<<st, hist>>
Inv == ModelInv(st)
=============================================================================
