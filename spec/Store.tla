-------------------------------- MODULE Store --------------------------------
(* C12 / C14 - files: writing, compression by suffix, reading back, restricted reads, aliases.

   fs : [path -> File]   path = <<stem, suffix>>
   File = [owner, fmt, sep, header, enc, c (content id), comp]
   A configuration cfg = [owner, fmt, sep, header, enc]; options are meaningful per format
   (sep/header: csv only; enc: csv and json), others are fixed to their defaults.            *)
EXTENDS Frame, TLC

Suffixes == {"", ".gz", ".bz2", ".xz"}
CompOf(suffix) == CASE suffix = ".gz" -> "gz" [] suffix = ".bz2" -> "bz2" [] suffix = ".xz" -> "xz" [] OTHER -> "none"
CfgOf(e) == [owner |-> e.owner, fmt |-> e.fmt, sep |-> e.sep, header |-> e.header, enc |-> e.enc]

EmptyFS == [p \in {} |-> 0]
WriteFS(fs, e) ==
  [p \in DOMAIN fs \cup {<<e.stem, e.suffix>>} |->
     IF p = <<e.stem, e.suffix>> THEN [cfg |-> CfgOf(e), c |-> e.c, comp |-> CompOf(e.suffix), ext |-> e.ext] ELSE fs[p]]
Readable(fs, e) == <<e.stem, e.suffix>> \in DOMAIN fs /\ fs[<<e.stem, e.suffix>>].cfg = CfgOf(e)   \* options used consistently

(* ---- invariants of the model ---- *)
ReallyCompressed(fs) == \A p \in DOMAIN fs : fs[p].comp = CompOf(p[2])

(* ---- restriction (C14) ---- *)
SelectNames(f, names) == [cols |-> SubAt(f.cols, {i \in DOMAIN f.cols : f.cols[i] \in names}),
                          cell |-> [c \in Range(f.cols) \cap names |-> f.cell[c]]]
AsMapEq(a, b) == Range(a.cols) = Range(b.cols) /\ Len(a.cols) = Len(b.cols) /\ \A c \in Range(a.cols) : a.cell[c] = b.cell[c]

(* ---- verdicts on recorded steps ----
   write step:  e.obs = [err, exists, magic]
   read step:   e.obs = [err, frame, kinds_same, alias_same, cast_ok]; e.cols = requested restriction (<<>> = all);
                e.cast = "" | "float" (column a) | "object" | "str" (column c): a dtype / type mapping leaves every cell
                (value class and missing positions, judged by the representation of the mapped dtype) where it was   *)
BinaryFmt(fmt) == fmt \in {"pickle", "npz", "parquet"}
(* e.ext: the file was produced by another program (pyarrow / csv module), not by the library's writer:
   nothing of the library is judged at that step, but reads of the file are (C14: restriction, mapping, alias). *)
JudgeWrite(e) ==
  IF e.ext THEN ""
  ELSE IF e.obs.err # "" THEN "write:raised"
  ELSE IF ~e.obs.exists THEN "write:file-not-at-the-given-path"
  ELSE IF e.obs.magic # CompOf(e.suffix) THEN "write:not-really-compressed-as-the-suffix-says"
  ELSE ""
JudgeRead(fs, contents, e) ==
  LET want == contents[fs[<<e.stem, e.suffix>>].c]
      exp == IF e.cols = <<>> THEN want ELSE SelectNames(want, Range(e.cols)) IN
  IF e.obs.err # "" THEN "read:raised"
  ELSE IF ~WellFormed(e.obs.frame) THEN "read:not-rectangular"
  ELSE IF e.cols = <<>> /\ e.obs.frame.cols # exp.cols THEN "read:column-names-or-order-differ"
  ELSE IF Range(e.obs.frame.cols) # Range(exp.cols) THEN "read:restriction-returned-other-columns"
  ELSE IF ~AsMapEq(e.obs.frame, exp) THEN
       (IF e.cols = <<>> THEN "read:values-or-missing-positions-differ" ELSE "read:restricted-read-differs-from-read-all-then-select")
  ELSE IF BinaryFmt(e.fmt) /\ ~e.obs.kinds_same THEN "read:binary-format-changed-a-dtype"
  ELSE IF e.cast # "" /\ ~e.obs.cast_ok THEN "read:dtype-mapping-not-applied-to-its-column"
  ELSE IF ~e.obs.alias_same THEN "read:module-level-alias-differs-from-class-method"
  ELSE ""
=============================================================================
