--------------------------------- MODULE Agg ---------------------------------
(* C07 - aggregation helpers: textbook statistic + NA policy + documented defaults.
   Elements are small integers; NAv is the missing element.  Numeric results are
   exact rationals scaled by S = 144 (every denominator that can occur for
   n <= 4 divides 144), so TLC only ever sees integers.                        *)
EXTENDS Integers, Sequences, FiniteSets

NAv == -99
S == 144
Rng(s) == {s[i] : i \in DOMAIN s}
RECURSIVE SumSeq(_)
SumSeq(s) == IF s = <<>> THEN 0 ELSE s[1] + SumSeq(Tail(s))
RECURSIVE DropNA(_)
DropNA(s) == IF s = <<>> THEN <<>> ELSE IF s[1] = NAv THEN DropNA(Tail(s)) ELSE <<s[1]>> \o DropNA(Tail(s))
HasNA(s) == NAv \in Rng(s)
CountNA(s) == Cardinality({i \in DOMAIN s : s[i] = NAv})
Sq(s) == [i \in DOMAIN s |-> s[i] * s[i]]
Sorted(s) ==      \* ascending, by counting
  LET pos(i) == 1 + Cardinality({j \in DOMAIN s : s[j] < s[i] \/ (s[j] = s[i] /\ j < i)})
  IN [k \in DOMAIN s |-> s[CHOOSE i \in DOMAIN s : pos(i) = k]]
MinOf(s) == CHOOSE v \in Rng(s) : \A w \in Rng(s) : v <= w
MaxOf(s) == CHOOSE v \in Rng(s) : \A w \in Rng(s) : v >= w
CountOf(s, v) == Cardinality({i \in DOMAIN s : s[i] = v})
FirstIdx(s, v) == CHOOSE i \in DOMAIN s : s[i] = v /\ \A j \in DOMAIN s : s[j] = v => i <= j
ModeOf(s) == CHOOSE v \in Rng(s) : \A w \in Rng(s) :
                CountOf(s, v) > CountOf(s, w) \/ (CountOf(s, v) = CountOf(s, w) /\ FirstIdx(s, v) <= FirstIdx(s, w))

Num(v) == [t |-> "num", v |-> v]      \* v is the value times S
Cell(v) == IF v = NAv THEN [t |-> "na"] ELSE [t |-> "cell", v |-> v]
NaR == [t |-> "na"]                   \* the column's missing value
NanR == [t |-> "nan"]                 \* not-a-number (also accepted as "missing" for float columns)
BoolR(b) == [t |-> "bool", v |-> b]

DropDefault(h) == IF h \in {"count", "count_unique", "first", "last", "nth"} THEN FALSE ELSE TRUE
NumericReduction(h) == h \in {"sum", "mean", "median", "quantile", "std", "var"}

(* a.dropna \in {TRUE, FALSE}; a.ddof; a.idx; a.q4 (q = q4/4).  kind \in {"bool","int","float","date","str"} *)
Helper(h, a, kind, xs) ==
  LET ys == IF a.dropna THEN DropNA(xs) ELSE xs
      n  == Len(ys)
      propagate == ~a.dropna /\ HasNA(xs) /\ (NumericReduction(h) \/ (h \in {"min", "max"} /\ kind \in {"float", "date"}))
  IN
  IF propagate THEN (IF h \in {"min", "max"} THEN NaR ELSE NanR)
  ELSE CASE h = "count"  -> Num(S * n)
    [] h = "count_unique" -> Num(S * Cardinality(Rng(ys)))
    [] h = "first" -> IF n >= 1 THEN Cell(ys[1]) ELSE NaR
    [] h = "last"  -> IF n >= 1 THEN Cell(ys[n]) ELSE NaR
    [] h = "nth"   -> IF a.idx >= 0 /\ a.idx < n THEN Cell(ys[a.idx + 1])
                      ELSE IF a.idx < 0 /\ -a.idx <= n THEN Cell(ys[n + a.idx + 1]) ELSE NaR
    [] h = "min"   -> IF n >= 1 THEN Cell(MinOf(ys)) ELSE NaR
    [] h = "max"   -> IF n >= 1 THEN Cell(MaxOf(ys)) ELSE NaR
    [] h = "mode"  -> IF n >= 1 THEN Cell(ModeOf(ys)) ELSE NaR
    [] h = "sum"   -> Num(S * SumSeq(ys))
    [] h = "mean"  -> IF n >= 1 THEN Num((S * SumSeq(ys)) \div n) ELSE NanR
    [] h = "median" -> IF n >= 1 THEN
                          (IF n % 2 = 1 THEN Num(S * Sorted(ys)[(n + 1) \div 2])
                           ELSE Num((S \div 2) * (Sorted(ys)[n \div 2] + Sorted(ys)[n \div 2 + 1])))
                       ELSE NanR
    [] h = "quantile" -> IF n >= 1 THEN
                            LET p4 == (n - 1) * a.q4  lo == p4 \div 4  rem == p4 % 4  z == Sorted(ys) IN
                            Num(S * z[lo + 1] + IF rem = 0 THEN 0 ELSE (S \div 4) * rem * (z[lo + 2] - z[lo + 1]))
                         ELSE NanR
    [] h \in {"var", "std"} ->
          IF n >= 2 /\ n - a.ddof > 0 THEN
              [t |-> IF h = "var" THEN "num" ELSE "sqrt",
               v |-> (S * (n * SumSeq(Sq(ys)) - SumSeq(ys) * SumSeq(ys))) \div (n * (n - a.ddof))]
          ELSE NanR
    [] h = "all" -> BoolR(\A i \in DOMAIN ys : ys[i] # 0)
    [] h = "any" -> BoolR(\E i \in DOMAIN ys : ys[i] # 0)

(* free points: not judged *)
Free(h, a, kind, xs) ==
  \/ (h \in {"mode", "count_unique"} /\ ~a.dropna /\ CountNA(xs) >= 2)
  \/ (h \in {"min", "max", "mode"} /\ kind = "str" /\ ~a.dropna /\ HasNA(xs))
  \/ (h \in {"all", "any"} /\ HasNA(xs))
  \/ (h \in {"var", "std"} /\ Len(IF a.dropna THEN DropNA(xs) ELSE xs) >= 2 /\ Len(IF a.dropna THEN DropNA(xs) ELSE xs) - a.ddof <= 0)

Matches(exp, obs, kind) ==
  IF exp.t = "num" THEN obs.t = "num" /\ obs.v = exp.v
  ELSE IF exp.t = "sqrt" THEN obs.t = "num" /\ obs.sq = exp.v          \* obs.sq: the observed value squared, times S
  ELSE IF exp.t = "cell" THEN obs.t = "cell" /\ obs.v = exp.v
  ELSE IF exp.t = "bool" THEN obs.t = "bool" /\ obs.v = exp.v
  ELSE IF exp.t = "nan" THEN obs.t \in {"nan"}
  ELSE (* na *) obs.t = "na" \/ (kind \in {"float", "int", "bool"} /\ obs.t = "nan")    \* NaN is the float/int missing value

Judge(e) ==
  IF Free(e.h, e.a, e.kind, e.xs) THEN ""
  ELSE IF e.err # "" THEN e.h \o ":raised"
  ELSE IF Matches(Helper(e.h, e.a, e.kind, e.xs), e.obs, e.kind) THEN ""
  ELSE LET exp == Helper(e.h, e.a, e.kind, e.xs) IN
       IF exp.t \in {"na", "nan"} THEN e.h \o ":missing-value-policy-or-default-wrong"
       ELSE IF e.obs.t \in {"na", "nan"} THEN e.h \o ":unexpectedly-missing"
       ELSE e.h \o ":not-the-textbook-statistic"

(* ---------------- textbook cross-checks of the definitions themselves ---------------- *)
ModelOK(xs) ==
  LET ys == DropNA(xs)  n == Len(ys)
      A(d) == [dropna |-> TRUE, ddof |-> d, idx |-> 0, q4 |-> 2]
      H(h, a) == Helper(h, a, "float", xs) IN
  /\ n >= 1 =>
       /\ \A i \in DOMAIN ys : H("min", A(0)).v <= ys[i] /\ ys[i] <= H("max", A(0)).v
       /\ H("mean", A(0)).v * n = H("sum", A(0)).v
       /\ H("quantile", [A(0) EXCEPT !.q4 = 0]).v = S * H("min", A(0)).v
       /\ H("quantile", [A(0) EXCEPT !.q4 = 4]).v = S * H("max", A(0)).v
       /\ H("quantile", [A(0) EXCEPT !.q4 = 2]).v = H("median", A(0)).v
       /\ \A k \in 0..3 : H("quantile", [A(0) EXCEPT !.q4 = k]).v <= H("quantile", [A(0) EXCEPT !.q4 = k + 1]).v
       /\ Cardinality({i \in DOMAIN ys : S * ys[i] <= H("median", A(0)).v}) * 2 >= n
       /\ Cardinality({i \in DOMAIN ys : S * ys[i] >= H("median", A(0)).v}) * 2 >= n
       /\ \A w \in Rng(ys) : CountOf(ys, H("mode", A(0)).v) >= CountOf(ys, w)
       /\ H("first", [A(0) EXCEPT !.dropna = TRUE]) = H("nth", [A(0) EXCEPT !.idx = 0])
       /\ H("last", A(0)) = H("nth", [A(0) EXCEPT !.idx = -1])
  /\ n >= 2 => /\ H("var", A(0)).v >= 0
               /\ (H("var", A(0)).v = 0 <=> Cardinality(Rng(ys)) = 1)
               /\ H("var", A(1)).v * (n - 1) = H("var", A(0)).v * n
  /\ n = 0 => /\ H("mean", A(0)) = NanR /\ H("var", A(0)) = NanR /\ H("sum", A(0)) = Num(0) /\ H("count", A(0)) = Num(0)
              /\ H("min", A(0)) = NaR /\ H("mode", A(0)) = NaR /\ H("all", A(0)) = BoolR(TRUE) /\ H("any", A(0)) = BoolR(FALSE)
=============================================================================
