------------------------------- MODULE LoDOps -------------------------------
(* C15 / C16 - ListOfDicts against plain list-of-dict semantics.
   An item is a function from key names to values; value -1 stands for None.
   Key "t" is an identity tag (an ordinary key for the library).  A list is a
   sequence of items.  Every operator below is the Python reference semantics
   of the same-named ListOfDicts method.                                      *)
EXTENDS Cells

None == -1
Has(it, k) == k \in DOMAIN it
AllHave(l, ks) == \A i \in DOMAIN l : \A k \in ks : Has(l[i], k)
SelSeq(l, P(_)) == SubAt(l, {i \in DOMAIN l : P(l[i])})
Restrict(it, ks) == [k \in DOMAIN it \cap ks |-> it[k]]
Without(it, ks) == [k \in DOMAIN it \ ks |-> it[k]]
Put(it, k, v) == [x \in DOMAIN it \cup {k} |-> IF x = k THEN v ELSE it[x]]
Merge(it, new) == [x \in DOMAIN it \cup DOMAIN new |-> IF x \in DOMAIN new THEN new[x] ELSE it[x]]

(* ---------- predicates / functions passed by the caller (a bounded family) ---------- *)
Pred(p, it) ==
  CASE p.f = "a_eq"      -> it["a"] = p.v
    [] p.f = "b_notnone" -> Has(it, "b") /\ it["b"] # None
    [] p.f = "b_value"   -> Has(it, "b") /\ it["b"] # None /\ it["b"] # 0     \* the predicate returns the value itself: Python truthiness
    [] p.f = "true"      -> TRUE
    [] p.f = "false"     -> FALSE
PredNeeds(p) == IF p.f = "a_eq" THEN {"a"} ELSE {}
Fn(g, it) == IF g.f = "const" THEN g.v ELSE it[g.k]          \* g.f = "from": copy the value of key g.k
FnNeeds(g) == IF g.f = "from" THEN {g.k} ELSE {}

KvMatch(kv, it) == \A p \in DOMAIN kv : it[kv[p][1]] = kv[p][2]
KvKeys(kv) == {kv[p][1] : p \in DOMAIN kv}

(* sort: stable, by keys and directions, None last in both directions *)
SortBefore(l, keys, dirs, x, y) ==
  \E j \in DOMAIN keys :
     /\ \A h \in 1..(j-1) : l[x][keys[h]] = l[y][keys[h]]
     /\ LET a == l[x][keys[j]]  b == l[y][keys[j]] IN
          IF a = None THEN FALSE ELSE IF b = None THEN TRUE
          ELSE IF dirs[j] = 1 THEN a < b ELSE a > b
Sort(l, keys, dirs) ==
  LET B(x, y) == SortBefore(l, keys, dirs, x, y)
      p == StablePerm(Len(l), B)
  IN  [i \in 1..Len(l) |-> l[p[i]]]

CommonKeys(l) == IF l = <<>> THEN {} ELSE {k \in DOMAIN l[1] : \A i \in DOMAIN l : Has(l[i], k)}
UniqueBy(l, ks) == SubAt(l, {i \in DOMAIN l : ~\E h \in 1..(i-1) : \A k \in ks : l[h][k] = l[i][k]})

NewKey(pairs, k) == IF \E p \in DOMAIN pairs : pairs[p][2] = k
                    THEN pairs[CHOOSE p \in DOMAIN pairs : pairs[p][2] = k][1] ELSE k
RenameItem(it, pairs) ==
  [d \in {NewKey(pairs, k) : k \in DOMAIN it} |-> it[CHOOSE k \in DOMAIN it : NewKey(pairs, k) = d]]
RenameInjective(it, pairs) == \A k1, k2 \in DOMAIN it : k1 # k2 => NewKey(pairs, k1) # NewKey(pairs, k2)

AllKeys(l) == UNION {DOMAIN l[i] : i \in DOMAIN l}
FillItem(it, kvs) == [x \in DOMAIN it \cup KvKeys(kvs) |->
                        IF Has(it, x) THEN it[x] ELSE kvs[CHOOSE p \in DOMAIN kvs : kvs[p][1] = x][2]]

(* Python list semantics *)
PyInsert(l, i, it) ==        \* list.insert: clamps, negative counts from the end
  LET n == Len(l)
      pos == IF i < 0 THEN Max2(n + i, 0) ELSE Min2(i, n)
  IN  SubSeq(l, 1, pos) \o <<it>> \o SubSeq(l, pos + 1, n)
RECURSIVE Times(_, _)
Times(l, n) == IF n <= 0 THEN <<>> ELSE l \o Times(l, n - 1)
Rev(l) == [i \in 1..Len(l) |-> l[Len(l) + 1 - i]]
\* slicing with optional bounds (Unset = -9) and step in {1, 2, -1}
Unset == -9
Clamp(x, lo, hi) == IF x < lo THEN lo ELSE IF x > hi THEN hi ELSE x
SliceIdx(n, lo, hi, step) ==      \* the 0-based index sequence of range(*slice(lo,hi,step).indices(n))
  IF step > 0 THEN
     LET s == IF lo = Unset THEN 0 ELSE IF lo < 0 THEN Max2(n + lo, 0) ELSE Min2(lo, n)
         e == IF hi = Unset THEN n ELSE IF hi < 0 THEN Max2(n + hi, 0) ELSE Min2(hi, n)
         cnt == IF e > s THEN (e - s + step - 1) \div step ELSE 0
     IN [i \in 1..cnt |-> s + (i - 1) * step]
  ELSE
     LET s == IF lo = Unset THEN n - 1 ELSE IF lo < 0 THEN Max2(n + lo, -1) ELSE Min2(lo, n - 1)
         e == IF hi = Unset THEN -1 ELSE IF hi < 0 THEN Max2(n + hi, -1) ELSE Min2(hi, n - 1)
         cnt == IF s > e THEN (s - e + (-step) - 1) \div (-step) ELSE 0
     IN [i \in 1..cnt |-> s + (i - 1) * step]

(* ---------- what each call needs in order to be a supported input ---------- *)
Supported(l, a) ==
  CASE a.op \in {"filter", "filter_out"}       -> AllHave(l, PredNeeds(a.p))
    [] a.op \in {"filter_kv", "filter_out_kv"} -> AllHave(l, KvKeys(a.kv))
    [] a.op = "sort"       -> AllHave(l, Range(a.keys))
    [] a.op = "unique"     -> AllHave(l, Range(a.keys)) /\ (a.keys = <<>> => (l = <<>> \/ CommonKeys(l) # {}))
    [] a.op = "rename"     -> \A i \in DOMAIN l : RenameInjective(l[i], a.pairs)
    [] a.op = "modify"     -> AllHave(l, FnNeeds(a.g))
    [] a.op = "modify_if"  -> AllHave(l, FnNeeds(a.g) \cup PredNeeds(a.p))
    [] a.op \in {"head", "tail"} -> a.n >= 0
    [] OTHER -> TRUE

(* ---------- the reference result ---------- *)
Apply(l, a) ==
  CASE a.op = "filter"        -> LET P(it) == Pred(a.p, it) IN SelSeq(l, P)
    [] a.op = "filter_out"    -> LET P(it) == ~Pred(a.p, it) IN SelSeq(l, P)
    [] a.op = "filter_kv"     -> LET P(it) == KvMatch(a.kv, it) IN SelSeq(l, P)
    [] a.op = "filter_out_kv" -> LET P(it) == ~KvMatch(a.kv, it) IN SelSeq(l, P)
    [] a.op = "sort"          -> Sort(l, a.keys, a.dirs)
    [] a.op = "unique"        -> UniqueBy(l, IF a.keys = <<>> THEN CommonKeys(l) ELSE Range(a.keys))
    [] a.op = "select"        -> [i \in DOMAIN l |-> Restrict(l[i], Range(a.keys))]
    [] a.op = "unselect"      -> [i \in DOMAIN l |-> Without(l[i], Range(a.keys))]
    [] a.op = "rename"        -> [i \in DOMAIN l |-> RenameItem(l[i], a.pairs)]
    [] a.op = "modify"        -> [i \in DOMAIN l |-> Put(l[i], a.k, Fn(a.g, l[i]))]
    [] a.op = "modify_if"     -> [i \in DOMAIN l |-> IF Pred(a.p, l[i]) THEN Put(l[i], a.k, Fn(a.g, l[i])) ELSE l[i]]
    [] a.op = "fill"          -> [i \in DOMAIN l |-> FillItem(l[i], a.kv)]
    [] a.op = "fill_all"      -> [i \in DOMAIN l |-> [x \in AllKeys(l) |-> IF Has(l[i], x) THEN l[i][x] ELSE None]]
    [] a.op = "append"        -> Append(l, a.item)
    [] a.op = "extend"        -> l \o a.items
    [] a.op = "add"           -> l \o a.items
    [] a.op = "insert"        -> PyInsert(l, a.i, a.item)
    [] a.op = "mul"           -> Times(l, a.n)
    [] a.op = "reverse"       -> Rev(l)
    [] a.op = "head"          -> SubSeq(l, 1, Min2(a.n, Len(l)))
    [] a.op = "tail"          -> SubSeq(l, Len(l) - Min2(a.n, Len(l)) + 1, Len(l))
    [] a.op = "slice"         -> LET ix == SliceIdx(Len(l), a.lo, a.hi, a.step) IN [i \in DOMAIN ix |-> l[ix[i] + 1]]
    [] a.op = "copy"          -> l
    [] a.op = "map_item"      -> l                                                   \* map(function returning a dict): a ListOfDicts of equal items
    [] a.op = "map_key"       -> [i \in DOMAIN l |-> [v |-> IF Has(l[i], a.k) THEN l[i][a.k] ELSE None]]   \* map(function returning a value): a plain list
    [] a.op = "drop_na"       -> LET P(it) == \A k \in Range(a.keys) : Has(it, k) /\ it[k] # None IN SelSeq(l, P)

(* ---------- declarative restatements used to check the model ---------- *)
ModelOK(l, a) ==
  ~Supported(l, a) \/
  LET out == Apply(l, a) IN
  /\ (a.op \in {"filter", "filter_kv"} =>
        LET other == Apply(l, [a EXCEPT !.op = IF a.op = "filter" THEN "filter_out" ELSE "filter_out_kv"]) IN
        /\ Len(out) + Len(other) = Len(l)
        /\ \A i \in DOMAIN l : (\E x \in DOMAIN out : out[x] = l[i]) \/ (\E x \in DOMAIN other : other[x] = l[i]))
  /\ (a.op = "sort" =>
        /\ SameBag(out, l)
        /\ \A x, y \in DOMAIN out : x < y =>
              ~SortBefore(out, a.keys, a.dirs, y, x))
  /\ (a.op = "unique" /\ a.keys # <<>> =>
        /\ \A x, y \in DOMAIN out : x # y => \E k \in Range(a.keys) : out[x][k] # out[y][k]
        /\ \A i \in DOMAIN l : \E x \in DOMAIN out : \A k \in Range(a.keys) : out[x][k] = l[i][k])
  /\ (a.op \in {"select", "unselect", "rename", "modify", "modify_if", "fill", "fill_all"} => Len(out) = Len(l))
  /\ (a.op = "tail" => out = SubSeq(l, Len(l) - Len(out) + 1, Len(l)) /\ Len(out) = Min2(a.n, Len(l)))
  /\ (a.op = "insert" => Len(out) = Len(l) + 1 /\ \E p \in DOMAIN out : out[p] = a.item)
  /\ (a.op = "slice" /\ a.lo = Unset /\ a.hi = Unset /\ a.step = 1 => out = l)
  /\ (a.op = "slice" /\ a.lo = Unset /\ a.hi = Unset /\ a.step = -1 => out = Rev(l))

(* ---------- verdict for one recorded call ---------- *)
(* e.l: items before the call; e.out: items of the result; e.cls: result is a ListOfDicts whose
   items support attribute access; e.err *)
Judge(e) ==
  IF ~Supported(e.l, e.a) THEN ""
  ELSE IF e.err # "" THEN e.a.op \o ":raised"
  ELSE IF ~e.cls THEN e.a.op \o ":result-not-a-ListOfDicts-of-attribute-dicts"
  ELSE IF e.out = Apply(e.l, e.a) THEN ""
  ELSE IF Len(e.out) # Len(Apply(e.l, e.a)) THEN e.a.op \o ":wrong-number-of-items"
  ELSE IF [i \in DOMAIN e.out |-> IF Has(e.out[i], "t") THEN e.out[i]["t"] ELSE -7]
          # [i \in DOMAIN e.out |-> IF Has(Apply(e.l, e.a)[i], "t") THEN Apply(e.l, e.a)[i]["t"] ELSE -7]
       THEN e.a.op \o ":wrong-items-or-order"
  ELSE e.a.op \o ":wrong-keys-or-values"
=============================================================================
