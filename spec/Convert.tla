------------------------------- MODULE Convert -------------------------------
(* C13 - conversions to ListOfDicts, JSON, pandas and Arrow are invertible.
   f = abstract frame, kinds[c] the column kind.  The intermediate object is observed with the
   foreign library's own API as  inter = [nrec, fields, null[c][i], sentinel[c][i]];
   kept = the same observation taken again after the intermediate object was converted back gives the same result
   (converting back is not allowed to consume the object: it can be converted again or used otherwise).            *)
EXTENDS Frame

Boundaries == {"lod", "json", "pandas", "arrow"}
NAMask(f) == [c \in ColSet(f) |-> [i \in 1..NRow(f) |-> f.cell[c][i] = NA]]
HasValue(f, c) == \E i \in 1..NRow(f) : f.cell[c][i] # NA
KindMustSurvive(k) == k \in {"bool", "int", "float", "str"}

Judge(e) ==
  LET f == e.fr  b == e.b  it == e.inter  back == e.back IN
  IF e.err # "" THEN "convert:raised:" \o b
  ELSE IF it.nrec # NRow(f) THEN "intermediate:not-one-record-per-row:" \o b
  ELSE IF it.fields # f.cols THEN "intermediate:not-one-field-per-column-in-order:" \o b
  ELSE IF \E c \in ColSet(f) : it.null[c] # NAMask(f)[c] THEN "intermediate:null-not-exactly-at-missing-positions:" \o b
  ELSE IF \E c \in ColSet(f) : \E i \in 1..NRow(f) : it.sentinel[c][i] THEN "intermediate:missing-value-crossed-as-a-sentinel:" \o b
  ELSE IF "kept" \in DOMAIN e /\ ~e.kept THEN "intermediate:changed-by-converting-it-back:" \o b     \* it still is one record per row, one field per column
  ELSE IF ~WellFormed(back) THEN "roundtrip:not-rectangular:" \o b
  ELSE IF back.cols # f.cols THEN "roundtrip:column-names-or-order-changed:" \o b
  ELSE IF \E c \in ColSet(f) : back.cell[c] # f.cell[c] THEN "roundtrip:values-or-missing-positions-changed:" \o b
  ELSE IF \E c \in ColSet(f) : KindMustSurvive(e.kinds[c]) /\ HasValue(f, c) /\ e.kinds_back[c] # e.kinds[c]
       THEN "roundtrip:dtype-of-column-changed:" \o b
  ELSE ""

(* the model: export/import on abstract frames are inverse by construction; what TLC checks here is
   that the observation format is total and that masks are well formed for every frame in the bound *)
Export(f) == [nrec |-> NRow(f), fields |-> f.cols, null |-> NAMask(f),
              sentinel |-> [c \in ColSet(f) |-> [i \in 1..NRow(f) |-> FALSE]]]
ModelOK(f, kinds) ==
  Judge([fr |-> f, b |-> "lod", inter |-> Export(f), back |-> f, kinds |-> kinds, kinds_back |-> kinds, err |-> ""]) = ""
=============================================================================
