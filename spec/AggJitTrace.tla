------------------------------ MODULE AggJitTrace ------------------------------
EXTENDS AggJit, TLC, Json, IOUtils
VARIABLES tid, bad, judged
T == JsonDeserialize(IOEnv.TRACE_FILE)
Init == tid = 0 /\ bad = "" /\ judged = FALSE
Pick1 == /\ tid = 0 /\ \E t \in 1..Len(T) : tid' = t
         /\ UNCHANGED <<bad, judged>>
Step == /\ tid > 0 /\ ~judged
        /\ LET v == Judge(T[tid]) IN
             /\ bad' = v
             /\ (v # "" => PrintT(ToJson([BAD |-> v, tid |-> tid])))
             /\ ((T[tid].err = "" /\ T[tid].status # "" /\ T[tid].predicted # "" /\ T[tid].status # T[tid].predicted
                  /\ ~(T[tid].predicted = "python" /\ T[tid].status = "reused")) =>      \* dispatcher statistics cannot tell "no kernel used" from "kernel reused"
                    PrintT(ToJson([DRIFT |-> T[tid].predicted, seen |-> T[tid].status, tid |-> tid])))
             /\ ((v = "" /\ T[tid].broken) => PrintT(ToJson([DRIFT |-> "broken", seen |-> "correct", tid |-> tid])))
        /\ judged' = TRUE /\ UNCHANGED tid
Next == Pick1 \/ Step
Spec == Init /\ [][Next]_<<tid, bad, judged>>
Accepted == bad = ""
=============================================================================
