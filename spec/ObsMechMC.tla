------------------------------- MODULE ObsMechMC -------------------------------
EXTENDS ObsMech, TLC
CONSTANTS MaxLists
VARIABLES st, mech
It(a, b) == [k \in {"a", "b"} |-> IF k = "a" THEN a ELSE b]
Init == /\ st = [items |-> <<It(0, None), It(1, 1)>>, hp |-> <<1, 1>>, lists |-> <<NewList(<<1, 2>>, {}, {})>>]
        /\ mech = InitMech(st)
Args == {[op |-> "filter", p |-> [f |-> "true"]], [op |-> "copy"], [op |-> "deepcopy"],
         [op |-> "select", keys |-> <<"a">>], [op |-> "modify", k |-> "b", g |-> [f |-> "const", v |-> 1]],
         [op |-> "unselect", keys |-> <<"b">>]}
Events == {[x |-> x, o |-> 0, a |-> a] : x \in DOMAIN st.lists, a \in Args}
     \cup {[x |-> x, o |-> o, a |-> [op |-> b]] : x \in DOMAIN st.lists, o \in DOMAIN st.lists, b \in {"add", "extend", "left"}}
Next == /\ Len(st.lists) < MaxLists
        /\ \E e \in Events : EventOK(st, e) /\ st' = Step(st, e) /\ mech' = MechStep(mech, e)
Spec == Init /\ [][Next]_<<st, mech>>
Inv == Refines(st, mech)
=============================================================================
