INIT Init
NEXT Next
INVARIANT Accepted
