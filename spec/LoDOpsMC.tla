------------------------------ MODULE LoDOpsMC ------------------------------
EXTENDS LoDOps, TLC, Json
CONSTANTS MaxLen, Emit
VARIABLES stage, l, arg
Absent == -2
Vals == {Absent, None, 0, 1}
MkItem(tag, a, b) == [k \in {"t"} \cup (IF a = Absent THEN {} ELSE {"a"}) \cup (IF b = Absent THEN {} ELSE {"b"}) |->
                        IF k = "t" THEN tag ELSE IF k = "a" THEN a ELSE b]
NewItems == {MkItem(100, 0, None), MkItem(100, Absent, 1), MkItem(100, None, Absent)}
NewLists == {<<>>, <<MkItem(100, 0, None)>>, <<MkItem(100, 1, 1), MkItem(101, Absent, 0)>>}
Preds == {[f |-> "a_eq", v |-> v] : v \in {None, 0, 1}} \cup {[f |-> "b_notnone"], [f |-> "b_value"], [f |-> "true"], [f |-> "false"]}
Fns == {[f |-> "const", v |-> v] : v \in {None, 1}} \cup {[f |-> "from", k |-> "b"]}
KeySeqs == {<<"a">>, <<"b">>, <<"a", "b">>, <<"b", "a">>}
Args(n) ==
       {[op |-> o, p |-> p] : o \in {"filter", "filter_out"}, p \in Preds}
  \cup {[op |-> o, kv |-> <<<<"a", v>>>>] : o \in {"filter_kv", "filter_out_kv"}, v \in {None, 0, 1}}
  \cup {[op |-> o, kv |-> <<<<"a", v>>, <<"b", w>>>>] : o \in {"filter_kv", "filter_out_kv"}, v \in {None, 0}, w \in {None, 1}}
  \cup {[op |-> "sort", keys |-> ks, dirs |-> ds] : ks \in KeySeqs, ds \in {<<1>>, <<-1>>, <<1, 1>>, <<1, -1>>, <<-1, 1>>, <<-1, -1>>}} 
  \cup {[op |-> "unique", keys |-> ks] : ks \in KeySeqs \cup {<<>>}}
  \cup {[op |-> o, keys |-> ks] : o \in {"select", "unselect"}, ks \in {<<"t">>, <<"t", "a">>, <<"a">>, <<"b", "t">>, <<"t", "a", "b">>, <<"x">>}}
  \cup {[op |-> "rename", pairs |-> p] : p \in {<<<<"x", "a">>>>, <<<<"x", "b">>>>, <<<<"b", "a">>>>, <<<<"b", "a">>, <<"a", "b">>>>, <<<<"x", "a">>, <<"y", "b">>>>}}
  \cup {[op |-> "modify", k |-> k, g |-> g] : k \in {"a", "x"}, g \in Fns}
  \cup {[op |-> "modify_if", p |-> p, k |-> k, g |-> g] : p \in Preds, k \in {"a", "x"}, g \in Fns}
  \cup {[op |-> "fill", kv |-> kv] : kv \in {<<<<"a", 0>>>>, <<<<"x", None>>>>, <<<<"a", 1>>, <<"b", None>>>>}}
  \cup {[op |-> "fill_all"], [op |-> "reverse"], [op |-> "copy"], [op |-> "map_item"], [op |-> "map_key", k |-> "a"], [op |-> "map_key", k |-> "b"]}
  \cup {[op |-> "append", item |-> it] : it \in NewItems}
  \cup {[op |-> o, items |-> its] : o \in {"extend", "add"}, its \in NewLists}
  \cup {[op |-> "insert", i |-> i, item |-> it] : i \in (-n-1)..(n+1), it \in {MkItem(100, 0, None)}}
  \cup {[op |-> "mul", n |-> m] : m \in -1..2}
  \cup {[op |-> o, n |-> m] : o \in {"head", "tail"}, m \in 0..(n+1)}
  \cup {[op |-> "slice", lo |-> lo, hi |-> hi, step |-> st] : lo \in {Unset, 0, 1, -1, -2, n+1}, hi \in {Unset, 0, 1, -1, n, n+1}, st \in {1, 2, -1}}
SortDirsOK(a) == a.op # "sort" \/ Len(a.keys) = Len(a.dirs)

Canon == \A i \in DOMAIN l : l[i]["a"] = 0 /\ l[i]["b"] = 0
Init == stage = "items" /\ l = <<>> /\ arg = [op |-> "none"]
Grow == /\ stage = "items" /\ Len(l) < MaxLen
        /\ \E a \in Vals, b \in Vals : l' = Append(l, MkItem(Len(l), a, b))
        /\ UNCHANGED <<stage, arg>>
Fix  == /\ stage = "items" /\ stage' = "args" /\ UNCHANGED <<l, arg>>
        /\ (Emit => PrintT(ToJson([kind |-> "list", l |-> l])))
Choose == /\ stage = "args"
          /\ \E a \in {x \in Args(Len(l)) : SortDirsOK(x)} :
                /\ arg' = a
                /\ ((Emit /\ AllHave(l, {"a", "b"}) /\ Canon) => PrintT(ToJson([kind |-> "arg", n |-> Len(l), a |-> a])))
          /\ stage' = "done" /\ UNCHANGED l
Next == Grow \/ Fix \/ Choose
Spec == Init /\ [][Next]_<<stage, l, arg>>
Inv == stage = "done" => ModelOK(l, arg)
=============================================================================
