---------------------------- MODULE VectorOpsMC ----------------------------
(* Enumerates every cell sequence up to MaxLen over CellSet (staged through
   Next so that all workers are used), checks the model-level properties and
   emits each sequence as one JSON line for replay against the real Vector.   *)
EXTENDS VectorOps, TLC, Json
CONSTANTS MaxLen, PosCells, Emit
CellSet == {NA} \cup PosCells
VARIABLES xs, done

Init == xs = <<>> /\ done = FALSE
Grow == /\ ~done /\ Len(xs) < MaxLen
        /\ \E c \in CellSet : xs' = Append(xs, c)
        /\ done' = FALSE
Stop == /\ ~done /\ done' = TRUE /\ xs' = xs
        /\ (Emit => PrintT(ToJson([xs |-> xs])))
Next == Grow \/ Stop
Spec == Init /\ [][Next]_<<xs, done>>
Inv == done => ModelOK(xs)
=============================================================================
