INIT Init
NEXT Next
INVARIANT Inv
CONSTANTS
  MaxLen = 4
  PosCells = {0, 2, 3, 4}
  Emit = TRUE
