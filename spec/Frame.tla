------------------------------- MODULE Frame -------------------------------
(* Abstract data frame: cols = column names in order, cell[c] = the cells of
   column c.  Column "r" (when present) carries distinct cells and serves as
   the row id the properties' observation points ask for; it is an ordinary
   column for the library.                                                    *)
EXTENDS Cells

NRow(f) == IF Len(f.cols) = 0 THEN 0 ELSE Len(f.cell[f.cols[1]])
ColSet(f) == Range(f.cols)
WellFormed(f) ==
  /\ \A a, b \in DOMAIN f.cols : a # b => f.cols[a] # f.cols[b]
  /\ \A c \in ColSet(f) : Len(f.cell[c]) = NRow(f)

(* rows of f at the index sequence pick (1-based), all columns *)
Rows(f, pick) == [cols |-> f.cols,
                  cell |-> [c \in ColSet(f) |-> [t \in 1..Len(pick) |-> f.cell[c][pick[t]]]]]

HasRowId(f) == "r" \in ColSet(f)
RowOf(f, rc) == CHOOSE i \in 1..NRow(f) : f.cell["r"][i] = rc

(* Every row of out is a whole row of in (same cells in every column). *)
WholeRows(in, out) ==
  /\ out.cols = in.cols
  /\ \A c \in ColSet(in) : Len(out.cell[c]) = NRow(out)
  /\ \A t \in 1..NRow(out) :
        /\ \E i \in 1..NRow(in) : in.cell["r"][i] = out.cell["r"][t]
        /\ \A c \in ColSet(in) : out.cell[c][t] = in.cell[c][RowOf(in, out.cell["r"][t])]
(* The input positions shown by out, read through the row id. *)
ObsPick(in, out) == [t \in 1..NRow(out) |-> RowOf(in, out.cell["r"][t])]

SameKeyOn(f, cols, a, b) == \A c \in cols : K(f.cell[c][a]) = K(f.cell[c][b])
AnyNAOn(f, cols, a) == \E c \in cols : f.cell[c][a] = NA
Increasing(p) == \A a, b \in DOMAIN p : a < b => p[a] < p[b]
=============================================================================
