----------------------------- MODULE JoinOpsMC -----------------------------
(* Enumerates pairs of frames and the key tuple; model-checks JoinOps!ModelOK
   on the full product; emits each left frame / right frame once.            *)
EXTENDS JoinOps, TLC, Json
CONSTANTS MaxL, MaxR, PosCells, Emit
CellSet == {NA} \cup PosCells
VARIABLES stage, lk, lj, rk, rj, by

Ycell(i) == IF i = 2 THEN NA ELSE 2 * ((i - 1) % 3)
LF == [cols |-> <<"k", "j", "r">>,
       cell |-> [c \in {"k", "j", "r"} |->
                   IF c = "k" THEN lk ELSE IF c = "j" THEN lj ELSE [i \in 1..Len(lk) |-> 2 * (i - 1)]]]
RF(b) == IF Len(b) = 2
         THEN [cols |-> <<"k", "j", "y", "rr">>,
               cell |-> [c \in {"k", "j", "y", "rr"} |->
                   IF c = "k" THEN rk ELSE IF c = "j" THEN rj
                   ELSE IF c = "y" THEN [i \in 1..Len(rk) |-> Ycell(i)] ELSE [i \in 1..Len(rk) |-> 2 * (i - 1)]]]
         ELSE [cols |-> <<"k", "y", "rr">>,
               cell |-> [c \in {"k", "y", "rr"} |->
                   IF c = "k" THEN rk
                   ELSE IF c = "y" THEN [i \in 1..Len(rk) |-> Ycell(i)] ELSE [i \in 1..Len(rk) |-> 2 * (i - 1)]]]

Init == stage = "L" /\ lk = <<>> /\ lj = <<>> /\ rk = <<>> /\ rj = <<>> /\ by = <<>>
GrowL == /\ stage = "L" /\ Len(lk) < MaxL
         /\ \E a \in CellSet, b \in CellSet : lk' = Append(lk, a) /\ lj' = Append(lj, b)
         /\ UNCHANGED <<stage, rk, rj, by>>
FixL  == /\ stage = "L" /\ stage' = "R" /\ UNCHANGED <<lk, lj, rk, rj, by>>
         /\ (Emit => PrintT(ToJson([kind |-> "L", k |-> lk, j |-> lj])))
GrowR == /\ stage = "R" /\ Len(rk) < MaxR
         /\ \E a \in CellSet, b \in CellSet : rk' = Append(rk, a) /\ rj' = Append(rj, b)
         /\ UNCHANGED <<stage, lk, lj, by>>
FixR  == /\ stage = "R" /\ \E b \in {<<"k">>, <<"k", "j">>} : by' = b
         /\ stage' = "done" /\ UNCHANGED <<lk, lj, rk, rj>>
         /\ ((Emit /\ lk = <<>>) => PrintT(ToJson([kind |-> "R", k |-> rk, j |-> rj])))
Next == GrowL \/ FixL \/ GrowR \/ FixR
Spec == Init /\ [][Next]_<<stage, lk, lj, rk, rj, by>>
Inv == stage = "done" => ModelOK(LF, RF(by), by)
=============================================================================
