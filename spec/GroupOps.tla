------------------------------ MODULE GroupOps ------------------------------
(* C04 - grouping partitions the rows; one summary row per distinct key.
   Summaries are symbolic: a recording function returns the row ids of the
   group it was given, so "computed from exactly the rows of that group in
   their original order" is an equality of row-id sequences.                  *)
EXTENDS Frame

KeyAt(f, by, i) == [c \in DOMAIN by |-> f.cell[by[c]][i]]
SameKey(ka, kb) == \A c \in DOMAIN ka : K(ka[c]) = K(kb[c])
(* ascending, NA after everything, lexicographic over the group columns *)
KeyLess(ka, kb) ==
  \E c \in DOMAIN ka :
     /\ \A h \in 1..(c-1) : K(ka[h]) = K(kb[h])
     /\ ka[c] # NA /\ (kb[c] = NA \/ K(ka[c]) < K(kb[c]))

(* ---------------- constructive ---------------- *)
Firsts(f, by) == {i \in 1..NRow(f) : ~\E h \in 1..(i-1) : SameKey(KeyAt(f, by, h), KeyAt(f, by, i))}
GroupOrder(f, by) ==        \* first rows of the groups, groups in ascending key order
  LET F == IdxSeq(Firsts(f, by))
      B(x, y) == KeyLess(KeyAt(f, by, F[x]), KeyAt(f, by, F[y]))
      p == StablePerm(Len(F), B)
  IN  [g \in 1..Len(F) |-> F[p[g]]]
Members(f, by, i) == IdxSeq({h \in 1..NRow(f) : SameKey(KeyAt(f, by, h), KeyAt(f, by, i))})
Groups(f, by) == [g \in 1..Len(GroupOrder(f, by)) |-> Members(f, by, GroupOrder(f, by)[g])]

(* ---------------- declarative ---------------- *)
\* groups: Seq of Seq of row indices; keys: Seq of key tuples (cells)
PartitionOK(f, groups) ==
  /\ \A g \in DOMAIN groups : Len(groups[g]) > 0
  /\ \A g, h \in DOMAIN groups : g # h => Range(groups[g]) \cap Range(groups[h]) = {}
  /\ UNION {Range(groups[g]) : g \in DOMAIN groups} = 1..NRow(f)
  /\ \A g \in DOMAIN groups : \A a, b \in DOMAIN groups[g] : a # b => groups[g][a] # groups[g][b]
MembersMatchKey(f, by, keys, groups) ==
  \A g \in DOMAIN groups : \A t \in DOMAIN groups[g] : SameKey(keys[g], KeyAt(f, by, groups[g][t]))
KeysDistinct(keys) == \A g, h \in DOMAIN keys : g # h => ~SameKey(keys[g], keys[h])
KeysAscending(keys) == \A g, h \in DOMAIN keys : g < h => KeyLess(keys[g], keys[h])
KeyValuesFromGroup(f, by, keys, groups) ==
  \A g \in DOMAIN groups : \A c \in DOMAIN by : \E t \in DOMAIN groups[g] : keys[g][c] = f.cell[by[c]][groups[g][t]]

ValidIds(f, rs) == \A t \in DOMAIN rs : \E i \in 1..NRow(f) : f.cell["r"][i] = rs[t]
ToIdx(f, rs) == [t \in DOMAIN rs |-> RowOf(f, rs[t])]

JudgeGroups(op, f, by, keys, groups) ==
  IF Len(keys) # Len(groups) THEN op \o ":one-row-per-group-violated"
  ELSE IF ~PartitionOK(f, groups) THEN op \o ":groups-not-a-partition-of-rows"
  ELSE IF ~MembersMatchKey(f, by, keys, groups) THEN op \o ":row-summarised-under-wrong-key"
  ELSE IF ~KeysDistinct(keys) THEN op \o ":key-combination-repeated"
  ELSE IF \E g \in DOMAIN groups : ~Increasing(groups[g]) THEN op \o ":group-rows-not-in-original-order"
  ELSE IF ~KeysAscending(keys) THEN op \o ":groups-not-ascending-NA-last"
  ELSE IF ~KeyValuesFromGroup(f, by, keys, groups) THEN op \o ":key-value-altered"
  ELSE ""

(* e.keys: Seq of key tuples; e.groups: Seq of Seq of row-id cells *)
Judge(e) ==
  LET f == e.fr  by == e.a.by  op == e.a.op IN
  IF e.err # "" THEN op \o ":raised"
  ELSE IF op = "aggregate" THEN
     IF \E g \in DOMAIN e.groups : ~ValidIds(f, e.groups[g]) THEN "aggregate:summary-over-unknown-rows"
     ELSE JudgeGroups(op, f, by, e.keys, [g \in DOMAIN e.groups |-> ToIdx(f, e.groups[g])])
  ELSE IF op = "count" THEN
     \* no recording possible: keys must be the distinct keys ascending and n the class sizes
     IF ~KeysDistinct(e.keys) THEN "count:key-combination-repeated"
     ELSE IF ~KeysAscending(e.keys) THEN "count:groups-not-ascending-NA-last"
     ELSE IF Len(e.ns) # Len(e.keys) THEN "count:one-row-per-group-violated"
     ELSE IF \E i \in 1..NRow(f) : ~\E g \in DOMAIN e.keys : SameKey(e.keys[g], KeyAt(f, by, i))
          THEN "count:group-missing"
     ELSE IF \E g \in DOMAIN e.keys :
               e.ns[g] # Cardinality({i \in 1..NRow(f) : SameKey(e.keys[g], KeyAt(f, by, i))})
          THEN "count:n-is-not-group-size"
     ELSE IF \E g \in DOMAIN e.keys : e.ns[g] = 0 THEN "count:empty-group"
     ELSE ""
  ELSE IF op = "split" THEN
     \* e.sets: Seq of Seq of 1-based row positions, order of the list is free
     IF \E g \in DOMAIN e.sets : \E t \in DOMAIN e.sets[g] : e.sets[g][t] \notin 1..NRow(f) THEN "split:index-out-of-range"
     ELSE IF ~PartitionOK(f, e.sets) THEN "split:not-disjoint-cover"
     ELSE IF \E g \in DOMAIN e.sets : \E a, b \in DOMAIN e.sets[g] :
                 ~SameKey(KeyAt(f, by, e.sets[g][a]), KeyAt(f, by, e.sets[g][b])) THEN "split:mixed-keys-in-one-set"
     ELSE IF \E g, h \in DOMAIN e.sets : g # h /\ SameKey(KeyAt(f, by, e.sets[g][1]), KeyAt(f, by, e.sets[h][1]))
          THEN "split:one-key-in-two-sets"
     ELSE ""
  ELSE IF op = "gmodify" THEN
     \* e.out: the modified frame restricted to the input columns; e.rowgroups[i]: ids recorded for row i
     IF ~(WholeRows(f, e.out) /\ NRow(e.out) = NRow(f) /\ ObsPick(f, e.out) = [i \in 1..NRow(f) |-> i])
        THEN "gmodify:other-columns-or-row-order-changed"
     ELSE IF Len(e.rowgroups) # NRow(f) THEN "gmodify:result-not-aligned"
     ELSE IF \E i \in 1..NRow(f) : ~ValidIds(f, e.rowgroups[i]) THEN "gmodify:summary-over-unknown-rows"
     ELSE IF \E i \in 1..NRow(f) : ToIdx(f, e.rowgroups[i]) # Members(f, by, i) THEN "gmodify:row-got-another-groups-result"
     ELSE ""
  ELSE IF op = "helper" THEN
     \* e.eq[g]: shorthand helper == lambda applying the helper to the group's column
     IF \A g \in DOMAIN e.eq : e.eq[g] THEN "" ELSE "helper:shorthand-differs-from-lambda"
  ELSE "unknown-op"

(* ---------------- the model itself ---------------- *)
ModelOK(f, a) ==
  LET by == a.by
      G == Groups(f, by)
      keys == [g \in DOMAIN G |-> KeyAt(f, by, G[g][1])]
  IN /\ JudgeGroups("m", f, by, keys, G) = ""
     /\ \A i \in 1..NRow(f) : \E g \in DOMAIN G : \E t \in DOMAIN G[g] : G[g][t] = i
=============================================================================
