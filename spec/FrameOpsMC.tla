----------------------------- MODULE FrameOpsMC -----------------------------
(* Enumerates frames (columns k, j and the row id r) up to MaxRows over the
   cell set, and every argument record for each row count; model-checks
   ModelOK on the full product; emits frames and (once per row count) argument
   records as JSON lines.  Which = "subset" (C02) or "sort" (C03).            *)
EXTENDS FrameOps, TLC, Json
CONSTANTS MaxRows, PosCells, Emit, Which
G == INSTANCE GroupOps
CellSet == {NA} \cup PosCells
VARIABLES stage, kk, jj, arg

Fr == [cols |-> <<"k", "j", "r">>,
       cell |-> [c \in {"k", "j", "r"} |->
                   IF c = "k" THEN kk ELSE IF c = "j" THEN jj ELSE [i \in 1..Len(kk) |-> 2 * (i - 1)]]]

ColSubsets == {<<"k">>, <<"j">>, <<"k", "j">>, <<"j", "k">>}
SubsetArgs(n) ==
       {[op |-> o, mask |-> m] : o \in {"filter", "filter_out"}, m \in [1..n -> BOOLEAN]}
  \cup {[op |-> o, kv |-> <<<<c, v>>>>] : o \in {"filter_kv", "filter_out_kv"}, c \in {"k", "j"}, v \in PosCells}
  \cup {[op |-> o, kv |-> <<<<"k", v>>, <<"j", w>>>>] : o \in {"filter_kv", "filter_out_kv"}, v \in PosCells, w \in PosCells}
  \cup {[op |-> o, idx |-> x] : o \in {"slice", "slice_off"}, x \in SeqsUpTo(0..(n-1), 3)}
  \cup {[op |-> o, n |-> m] : o \in {"head", "tail", "sample"}, m \in 0..(n+1)}
  \cup {[op |-> "drop_na", cols |-> cs] : cs \in ColSubsets \cup {<<>>}}
  \cup {[op |-> "unique", cols |-> cs] : cs \in ColSubsets \cup {<<"k", "j", "r">>}}
SortArgs(n) ==
       {[op |-> "sort", keys |-> <<c>>, dirs |-> <<d>>] : c \in {"k", "j"}, d \in {1, -1}}
  \cup {[op |-> "sort", keys |-> ks, dirs |-> <<d1, d2>>] : ks \in {<<"k", "j">>, <<"j", "k">>, <<"k", "r">>}, d1 \in {1, -1}, d2 \in {1, -1}}
GroupArgs(n) == {[op |-> "group", by |-> b] : b \in {<<"k">>, <<"j">>, <<"k", "j">>, <<"j", "k">>}}
Args(n) == IF Which = "sort" THEN SortArgs(n) ELSE IF Which = "group" THEN GroupArgs(n) ELSE SubsetArgs(n)

Canon == \A i \in DOMAIN kk : kk[i] = 0 /\ jj[i] = 0

Init == stage = "rows" /\ kk = <<>> /\ jj = <<>> /\ arg = [op |-> "none"]
Grow == /\ stage = "rows" /\ Len(kk) < MaxRows
        /\ \E a \in CellSet, b \in CellSet : kk' = Append(kk, a) /\ jj' = Append(jj, b)
        /\ UNCHANGED <<stage, arg>>
Fix  == /\ stage = "rows" /\ stage' = "args" /\ UNCHANGED <<kk, jj, arg>>
        /\ (Emit => PrintT(ToJson([kind |-> "frame", fr |-> Fr])))
Choose == /\ stage = "args"
          /\ \E a \in Args(Len(kk)) :
                /\ arg' = a
                /\ ((Emit /\ Canon) => PrintT(ToJson([kind |-> "arg", n |-> Len(kk), a |-> a])))
          /\ stage' = "done" /\ UNCHANGED <<kk, jj>>
Next == Grow \/ Fix \/ Choose
Spec == Init /\ [][Next]_<<stage, kk, jj, arg>>
Inv == stage = "done" => IF Which = "group" THEN G!ModelOK(Fr, arg) ELSE ModelOK(Fr, arg)
=============================================================================
