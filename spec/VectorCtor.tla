----------------------------- MODULE VectorCtor -----------------------------
(* C10 - vector construction and the missing-value model.
   An input is a sequence of tags (what kind of Python / NumPy value sits at each
   position); payloads are concrete-level.  dt = "" means no explicit dtype.   *)
EXTENDS Integers, Sequences, FiniteSets

MissingTags == {"None", "nan", "np_nat"}
NumTags  == {"pyint", "pyfloat", "np_int", "np_float"}
BoolTags == {"pybool", "np_bool"}
StrTags  == {"str", "np_str", "str_empty"}
Rng(s) == {s[i] : i \in DOMAIN s}
Present(tags) == Rng(tags) \ MissingTags

(* the inferred class of an input without explicit dtype, as the statement words it *)
Class(tags) ==
  LET P == Present(tags) IN
  IF P = {} THEN "none"
  ELSE IF P \subseteq StrTags THEN "string"
  ELSE IF P \cap StrTags # {} THEN "string-mixed"
  ELSE IF P \subseteq NumTags THEN "number"
  ELSE IF P \subseteq BoolTags THEN "bool"
  ELSE IF P \subseteq {"date"} \/ P \subseteq {"datetime"} \/ P \subseteq {"np_dt64"} THEN "datelike"
  ELSE IF P \subseteq {"date", "datetime"} THEN "datelike"
  ELSE IF P \subseteq {"date", "datetime", "np_dt64"} THEN "datelike-mixed"
  ELSE "other"

(* missing positions: None / NaN / NaT always; the empty string exactly when the result is a string
   vector (isstr: observed - what a str + non-str mix becomes is NumPy's business, a free point) *)
NAsetS(tags, isstr) == {i \in DOMAIN tags : tags[i] \in MissingTags \/ (tags[i] = "str_empty" /\ isstr)}
NAset(tags, dt) == NAsetS(tags, dt = "str" \/ (dt = "" /\ Class(tags) = "string"))

(* explicit dtypes are generated only where the values are of that type (anything else is the caller's cast) *)
SupportedDt(tags, dt) ==
  LET P == Present(tags) IN
  CASE dt = "" -> TRUE
    [] dt = "bool" -> P \subseteq BoolTags /\ "np_nat" \notin Rng(tags)
    [] dt = "int" -> P \subseteq {"pyint", "np_int"} /\ "np_nat" \notin Rng(tags)
    [] dt = "float" -> P \subseteq NumTags /\ "np_nat" \notin Rng(tags)
    [] dt = "str" -> P \subseteq StrTags /\ "np_nat" \notin Rng(tags)
    [] dt = "object" -> TRUE
    [] dt = "date" -> P \subseteq {"date", "np_dt64"}
    [] dt = "datetime" -> P \subseteq {"datetime", "date", "np_dt64"}
    [] OTHER -> FALSE
NARep(cls) == CASE cls = "number" -> "nan" [] cls = "datelike" -> "nat" [] cls = "string" -> "empty" [] OTHER -> "none"

(* inputs whose values survive construction unchanged (tolist must return the originals) *)
ValuePreserving(tags, dt) ==
  /\ dt = ""
  /\ Class(tags) \in {"number", "bool", "datelike", "none"} \/ (Class(tags) = "string" /\ Present(tags) \subseteq StrTags)
     \/ (Class(tags) = "other" /\ Cardinality(Present(tags)) = 1)

(* np.datetime64("NaT") is a date-like scalar: the statement speaks of None and NaN as the missing
   markers of an input; an explicit NaT among values that are not date-like is a free point *)
NatOutOfPlace(tags, dt) ==
  "np_nat" \in Rng(tags) /\ (~(Present(tags) \subseteq {"date", "datetime", "np_dt64"}) \/ Present(tags) = {} \/ dt = "object")
(* strings mixed with values NumPy does not stringify (dates, timedeltas, bytes, objects, booleans):
   whether the result is a string or an object vector is NumPy's coercion, so the mix is judged only
   when a string vector was observed *)
(* np.timedelta64 mixed with numbers or booleans: NumPy coerces the numbers into durations of the timedelta's unit
   (a value change that is NumPy's, not the library's) - not judged *)
TdMix(tags) == "np_td64" \in Present(tags) /\ Present(tags) \cap (NumTags \cup BoolTags) # {}
MixFree(tags, dt, isstr) == dt = "" /\ Class(tags) = "string-mixed" /\ ~isstr

(* statement-level expectations that only apply where the class is clear *)
RepJudged(tags, dt) == dt = "" /\ Class(tags) \in {"number", "datelike", "string", "bool", "none"} /\ NAset(tags, dt) # {}
StringInferred(tags, dt, isstr) == (dt = "" /\ Class(tags) = "string") => isstr      \* pure strings give a string vector

Judge(e) ==
  LET tags == e.tags  dt == e.dt  na == NAsetS(tags, e.isstr) IN
  IF e.unsupported \/ ~SupportedDt(tags, dt) \/ NatOutOfPlace(tags, dt) \/ MixFree(tags, dt, e.isstr) \/ TdMix(tags) THEN ""                      \* NumPy itself rejects the dtype / value combination: not generated as a claim
  ELSE IF e.err # "" THEN "ctor:raised"
  ELSE IF e.ndim # 1 \/ e.len # Len(tags) THEN "ctor:not-a-vector-of-the-input-length"
  ELSE IF ~StringInferred(tags, dt, e.isstr) THEN "ctor:strings-did-not-give-a-string-vector"
  ELSE IF {i \in DOMAIN e.isna : e.isna[i]} # na THEN "na:is_na-does-not-flag-exactly-the-missing-positions"
  ELSE IF {i \in DOMAIN e.tolist_none : e.tolist_none[i]} # na THEN "na:tolist-none-not-exactly-at-missing-positions"
  ELSE IF ValuePreserving(tags, dt) /\ \E i \in DOMAIN tags : i \notin na /\ ~e.tolist_eq[i] THEN "tolist:not-the-original-values"
  ELSE IF RepJudged(tags, dt) /\ e.narep # NARep(Class(tags)) THEN "na:missing-value-not-the-one-of-the-inferred-type"
  ELSE IF ~e.rebuild_equal THEN "rebuild:vector-from-tolist-and-dtype-not-equal"
  ELSE IF ~e.na_holds THEN "na_dtype:cast-cannot-hold-na_value-as-missing"
  ELSE IF e.dropna_len # Len(tags) - Cardinality(na) \/ ~e.dropna_clean THEN "drop_na:not-exactly-the-missing-positions"
  ELSE IF ~e.replace_ok THEN "replace_na:not-exactly-the-missing-positions"
  ELSE IF ~e.self_equal THEN "equal:not-reflexive"
  ELSE ""

(* equal as an equivalence over a pool of vectors: m[i][j] = v_i.equal(v_j) *)
JudgeEq(e) ==
  LET m == e.m  N == DOMAIN e.m IN
  IF \E i \in N : ~m[i][i] THEN "equal:not-reflexive"
  ELSE IF \E i, j \in N : m[i][j] # m[j][i] THEN "equal:not-symmetric"
  ELSE IF \E i, j, k \in N : m[i][j] /\ m[j][k] /\ ~m[i][k] THEN "equal:not-transitive"
  ELSE IF \E i, j \in N : e.sameinput[i][j] /\ ~m[i][j] THEN "equal:same-input-not-equal"
  ELSE ""
JudgeAny(e) == IF e.k = "eq" THEN JudgeEq(e) ELSE Judge(e)

(* model-level sanity *)
ModelOK(tags) ==
  /\ NAset(tags, "") \subseteq DOMAIN tags
  /\ (Class(tags) = "number" => \A i \in DOMAIN tags : tags[i] \in NumTags \cup MissingTags)
  /\ (\A i \in DOMAIN tags : tags[i] \in MissingTags) => Class(tags) = "none" /\ NAset(tags, "") = DOMAIN tags
  /\ Class(tags) = "string" => \A i \in DOMAIN tags : tags[i] = "str_empty" => i \in NAset(tags, "")
=============================================================================
