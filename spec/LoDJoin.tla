------------------------------- MODULE LoDJoin -------------------------------
(* C16 - ListOfDicts joins (first match, plain equality: None matches None) and
   aggregate (partition by group keys, ordered with None last).
   Left items carry tag "lt" and keys k, j; right items carry tag "rt", the join
   keys and a payload y.                                                      *)
EXTENDS LoDOps

KeyEq(x, y, by) == \A c \in Range(by) : x[c] = y[c]
MatchSet(x, R, by) == {m \in DOMAIN R : KeyEq(x, R[m], by)}
FirstMatch(x, R, by) == IF MatchSet(x, R, by) = {} THEN 0
                        ELSE CHOOSE m \in MatchSet(x, R, by) : \A h \in MatchSet(x, R, by) : m <= h
NonKey(y, by) == Without(y, Range(by))
Merged(x, R, by) == IF FirstMatch(x, R, by) = 0 THEN x ELSE Merge(x, NonKey(R[FirstMatch(x, R, by)], by))

LeftJoin(L, R, by)  == [i \in DOMAIN L |-> Merged(L[i], R, by)]
InnerJoin(L, R, by) == LET P(x) == FirstMatch(x, R, by) # 0 IN
                       [i \in DOMAIN SelSeq(L, P) |-> Merged(SelSeq(L, P)[i], R, by)]
SemiJoin(L, R, by)  == LET P(x) == FirstMatch(x, R, by) # 0 IN SelSeq(L, P)
AntiJoin(L, R, by)  == LET P(x) == FirstMatch(x, R, by) = 0 IN SelSeq(L, P)

FullJoinOK(L, R, by, out) ==
  /\ \A t \in DOMAIN out :
       LET o == out[t] IN
       /\ Has(o, "lt") \/ Has(o, "rt")
       /\ Has(o, "lt") => \E i \in DOMAIN L : L[i]["lt"] = o["lt"] /\ \A k \in DOMAIN L[i] : Has(o, k) /\ o[k] = L[i][k]
       /\ Has(o, "rt") => \E m \in DOMAIN R : /\ R[m]["rt"] = o["rt"]
                                              /\ \A k \in DOMAIN NonKey(R[m], by) : Has(o, k) /\ o[k] = R[m][k]
                                              /\ \A c \in Range(by) : Has(o, c) /\ o[c] = R[m][c]     \* never merges unequal keys
  /\ \A i \in DOMAIN L : \E t \in DOMAIN out : Has(out[t], "lt") /\ out[t]["lt"] = L[i]["lt"]
  /\ \A m \in DOMAIN R : \E t \in DOMAIN out : Has(out[t], "rt") /\ out[t]["rt"] = R[m]["rt"]

(* aggregate *)
KeyTuple(x, by) == [c \in DOMAIN by |-> x[by[c]]]
TupleLess(a, b) == \E c \in DOMAIN a : /\ \A h \in 1..(c-1) : a[h] = b[h]
                                      /\ a[c] # None /\ (b[c] = None \/ a[c] < b[c])
AggOK(l, by, keys, groups) ==       \* keys: Seq of key tuples, groups: Seq of Seq of tags
  /\ Len(keys) = Len(groups)
  /\ \A g, h \in DOMAIN keys : g < h => TupleLess(keys[g], keys[h])                  \* ordered, None last, distinct
  /\ \A g \in DOMAIN groups :
        groups[g] = LET P(x) == KeyTuple(x, by) = keys[g] IN
                    [i \in DOMAIN SelSeq(l, P) |-> SelSeq(l, P)[i]["lt"]]          \* exactly that group's items, in order
  /\ \A i \in DOMAIN l : \E g \in DOMAIN keys : keys[g] = KeyTuple(l[i], by)
  /\ \A g \in DOMAIN groups : groups[g] # <<>>

(* split: index lists (0-based) - a partition of the positions by key tuple, groups in order of first appearance,
   positions ascending inside a group *)
SplitOK(l, by, groups) ==
  LET pos(g, t) == groups[g][t] + 1 IN
  /\ \A g \in DOMAIN groups : groups[g] # <<>> /\ \A t \in DOMAIN groups[g] : pos(g, t) \in DOMAIN l
  /\ \A i \in DOMAIN l : Cardinality({<<g, t>> \in {<<g2, t2>> \in (DOMAIN groups) \X (1..Len(l)) : t2 \in DOMAIN groups[g2]} : pos(g, t) = i}) = 1
  /\ \A g \in DOMAIN groups : \A t, u \in DOMAIN groups[g] :
        /\ KeyTuple(l[pos(g, t)], by) = KeyTuple(l[pos(g, u)], by)
        /\ (t < u => pos(g, t) < pos(g, u))
  /\ \A g, h \in DOMAIN groups : g < h => /\ KeyTuple(l[pos(g, 1)], by) # KeyTuple(l[pos(h, 1)], by)
                                           /\ pos(g, 1) < pos(h, 1)

JudgeJ(e) ==
  LET L == e.L  R == e.R  by == e.a.by  kind == e.a.kind  out == e.out IN
  IF e.err # "" THEN kind \o ":raised"
  ELSE IF ~e.cls THEN kind \o ":result-not-a-ListOfDicts"
  ELSE IF kind = "left" THEN
      (IF out = LeftJoin(L, R, by) THEN ""
       ELSE IF Len(out) # Len(L) \/ \E i \in DOMAIN out : ~Has(out[i], "lt") \/ out[i]["lt"] # L[i]["lt"]
            THEN "left_join:left-items-not-all-kept-in-order"
       ELSE "left_join:not-merged-with-first-match-non-key-entries")
  ELSE IF kind = "inner" THEN (IF out = InnerJoin(L, R, by) THEN "" ELSE "inner_join:not-the-merged-matched-items")
  ELSE IF kind = "semi"  THEN (IF out = SemiJoin(L, R, by) THEN "" ELSE "semi_join:not-the-unmerged-matched-items")
  ELSE IF kind = "anti"  THEN (IF out = AntiJoin(L, R, by) THEN "" ELSE "anti_join:not-the-unmatched-items")
  ELSE IF kind = "full"  THEN (IF FullJoinOK(L, R, by, out) THEN "" ELSE "full_join:loses-items-or-merges-unequal-keys")
  ELSE IF kind = "right_unchanged" THEN (IF out = R THEN "" ELSE "join:right-operand-modified")
  ELSE IF kind = "split" THEN (IF SplitOK(L, by, e.groups) THEN "" ELSE "split:not-the-partition-of-positions-by-key-in-first-appearance-order")
  ELSE IF kind = "aggregate" THEN (IF AggOK(L, by, e.keys, e.groups) THEN "" ELSE "aggregate:not-one-ordered-item-per-group-over-its-items")
  ELSE "unknown"
Judge2(e) == JudgeJ(e)

ModelJ(L, R, by) ==
  /\ Len(LeftJoin(L, R, by)) = Len(L)
  /\ Len(SemiJoin(L, R, by)) + Len(AntiJoin(L, R, by)) = Len(L)
  /\ Len(InnerJoin(L, R, by)) = Len(SemiJoin(L, R, by))
  /\ \A i \in DOMAIN InnerJoin(L, R, by) : InnerJoin(L, R, by)[i]["lt"] = SemiJoin(L, R, by)[i]["lt"]
  /\ \A i \in DOMAIN L : LeftJoin(L, R, by)[i]["lt"] = L[i]["lt"]
  /\ \A i \in DOMAIN L : Has(LeftJoin(L, R, by)[i], "rt") <=> \E m \in DOMAIN R : KeyEq(L[i], R[m], by)
  /\ (\A m \in DOMAIN R : \E i \in DOMAIN L : FirstMatch(L[i], R, by) = m) => FullJoinOK(L, R, by, LeftJoin(L, R, by))
=============================================================================
