------------------------------- MODULE GeoJSON -------------------------------
(* C18 - GeoJSON read / write faithfulness on abstract feature collections.
   feature = [p : [subset of keys -> value], g : geometry id]   value -1 = JSON null
   fc = [features : Seq(feature), meta : Seq(<<name id, value id>>)]  (names distinct)             *)
EXTENDS Integers, Sequences, FiniteSets

Null == -1
Rng(s) == {s[i] : i \in DOMAIN s}
KeysOf(fc) == UNION {DOMAIN fc.features[i].p : i \in DOMAIN fc.features}
ValAt(fc, i, k) == IF k \in DOMAIN fc.features[i].p THEN fc.features[i].p[k] ELSE Null       \* absent is missing

(* what reading must give: one row per feature in order, a column per key occurring anywhere *)
ReadOK(fc, fr) ==        \* fr = [cols, cell : key -> Seq(value), geom : Seq(geometry id), meta : set of <<name, value>>]
  /\ Rng(fr.cols) = KeysOf(fc) \cup {"geometry"}
  /\ Len(fr.cols) = Cardinality(KeysOf(fc)) + 1
  /\ \A k \in KeysOf(fc) : fr.cell[k] = [i \in DOMAIN fc.features |-> ValAt(fc, i, k)]
  /\ fr.geom = [i \in DOMAIN fc.features |-> fc.features[i].g]
MetaOK(fc, fr) == Rng(fr.meta) = Rng(fc.meta) /\ fr.metacount = Len(fc.meta)

(* what the written file must contain (as parsed by the standard library) *)
WriteOK(fc, w) ==        \* w = [valid, features : Seq([p, g]), meta, metacount]
  /\ Len(w.features) = Len(fc.features)
  /\ \A i \in DOMAIN fc.features :
        /\ w.features[i].g = fc.features[i].g
        /\ \A k \in KeysOf(fc) \cup DOMAIN w.features[i].p :
              (IF k \in DOMAIN w.features[i].p THEN w.features[i].p[k] ELSE Null) = ValAt(fc, i, k)

Judge(e) ==
  LET fc == e.fc IN
  IF e.err # "" THEN "geojson:raised:" \o e.stage
  ELSE IF ~ReadOK(fc, e.read1) THEN "read:not-one-row-per-feature-with-a-column-per-key-and-geometry-unchanged"
  ELSE IF ~MetaOK(fc, e.read1) THEN "read:other-top-level-members-not-all-in-metadata"
  ELSE IF ~e.written.valid THEN "write:file-is-not-valid-json"
  ELSE IF ~WriteOK(fc, e.written) THEN "write:features-differ-from-the-collection"
  ELSE IF ~(Rng(e.written.meta) = Rng(fc.meta) /\ e.written.metacount = Len(fc.meta)) THEN "write:top-level-members-dropped-duplicated-or-altered"
  ELSE IF ~(ReadOK(fc, e.read2) /\ e.read2.cols = e.read1.cols) THEN "reread:columns-values-or-missing-positions-differ"
  ELSE IF ~MetaOK(fc, e.read2) THEN "reread:metadata-differs"
  ELSE ""

ModelOK(fc) ==     \* reading what was written gives the same frame, on the model
  LET fr == [cols |-> <<>>, cell |-> [k \in KeysOf(fc) |-> [i \in DOMAIN fc.features |-> ValAt(fc, i, k)]],
             geom |-> [i \in DOMAIN fc.features |-> fc.features[i].g], meta |-> fc.meta, metacount |-> Len(fc.meta)]
      w == [valid |-> TRUE, features |-> [i \in DOMAIN fc.features |-> [p |-> [k \in KeysOf(fc) |-> ValAt(fc, i, k)], g |-> fc.features[i].g]],
            meta |-> fc.meta, metacount |-> Len(fc.meta)]
  IN WriteOK(fc, w) /\ MetaOK(fc, fr)
=============================================================================
