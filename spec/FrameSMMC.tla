------------------------------ MODULE FrameSMMC ------------------------------
EXTENDS FrameSMEvents, TLC
CONSTANTS MaxFrames, MaxDepth
VARIABLES st, ev
Init == ev = [op |-> "init"] /\ st = InitSt
Events == EventsOf(st)
Next == /\ Len(st.frames) < MaxFrames
        /\ \E e \in Events, sh \in BOOLEAN :
              /\ EventOK(st, e) /\ ~MustFail(st, e) /\ (sh => e.op = "setcol")
              /\ st' = Step(st, e, sh) /\ ev' = e
Spec == Init /\ [][Next]_<<st, ev>>
PropsOK == FreshResult(st, ev') /\ OperandsUntouched(st, ev') /\ PokeLocal(st, ev')
Safe == [][PropsOK]_<<st, ev>>
DepthOK == TLCGet("level") <= MaxDepth
Inv == AllWF(st)
=============================================================================
