-------------------------------- MODULE ObsMech --------------------------------
(* Layer 2 for C17: the library's obsolescence mechanism, transcribed.
   Every list object has a predecessor link set by _new (none after deepcopy; both operands after
   + / extend when TwoParent), and an _obsolete bit; an @obsoletes method marks the receiver and,
   recursively, everything reachable through predecessor links.
   Refinement obligation: the mechanism's bits satisfy the contract flags of LoDSM
   (flag "yes" => bit set, flag "no" => bit clear; "free" unconstrained).                          *)
EXTENDS LoDSM
CONSTANT TwoParent          \* TRUE: + and extend record both operands (the repaired code); FALSE: only the receiver

InitMech(st) == [pred |-> [l \in DOMAIN st.lists |-> {}], bit |-> [l \in DOMAIN st.lists |-> FALSE]]

RECURSIVE Reach(_, _)
Reach(mech, S) == LET nxt == S \cup UNION {mech.pred[l] : l \in S} IN IF nxt = S THEN S ELSE Reach(mech, nxt)
Mark(mech, x) == [mech EXCEPT !.bit = [l \in DOMAIN mech.bit |-> IF l \in Reach(mech, {x}) THEN TRUE ELSE mech.bit[l]]]

PredOf(e) ==
  IF e.a.op = "deepcopy" THEN {}
  ELSE IF e.a.op \in {"extend", "add"} THEN (IF TwoParent THEN {e.x, e.o} ELSE {e.x})
  ELSE {e.x}
MechStep(mech, e) ==
  LET m1 == IF e.a.op \in Editors THEN Mark(mech, e.x) ELSE mech IN
  [pred |-> Append(m1.pred, PredOf(e)), bit |-> Append(m1.bit, FALSE)]

Refines(st, mech) ==
  \A l \in DOMAIN st.lists : /\ st.lists[l].flag = "yes" => mech.bit[l]
                             /\ st.lists[l].flag = "no" => ~mech.bit[l]
=============================================================================
