----------------------------- MODULE FrameSMEvents -----------------------------
(* The bounded event vocabulary shared by the exhaustive model check (FrameSMMC) and the behaviour generator (FrameSMGen). *)
EXTENDS FrameSM
F1 == [cols |-> <<"k", "a", "r">>, cell |-> [c \in {"k", "a", "r"} |-> IF c = "k" THEN <<0, NA, 0>> ELSE IF c = "a" THEN <<2, 0, NA>> ELSE <<0, 2, 4>>]]
F2 == [cols |-> <<"k", "b", "rr">>, cell |-> [c \in {"k", "b", "rr"} |-> IF c = "k" THEN <<2, 0>> ELSE IF c = "b" THEN <<NA, 4>> ELSE <<0, 2>>]]
InitSt == AddFresh(AddFresh([bufs |-> <<>>, frames |-> <<>>], F1, <<>>), F2, <<>>)
EventsOf(st) ==
  LET H == DOMAIN st.frames IN
       {[op |-> "filter", x |-> x, a |-> [op |-> "filter", mask |-> m]] : x \in H, m \in {<<TRUE, FALSE, TRUE>>, <<FALSE, TRUE>>}}
  \cup {[op |-> o, x |-> x, a |-> [op |-> o, n |-> 1]] : x \in H, o \in {"head", "tail"}}
  \cup {[op |-> "sort", x |-> x, a |-> [op |-> "sort", keys |-> <<"k">>, dirs |-> <<1>>]] : x \in H}
  \cup {[op |-> "unique", x |-> x, a |-> [op |-> "unique", cols |-> <<"k">>]] : x \in H}
  \cup {[op |-> "select", x |-> x, a |-> [op |-> "select", names |-> <<"k">>]] : x \in H}
  \cup {[op |-> "rename", x |-> x, a |-> [op |-> "rename", pairs |-> <<<<"x", "k">>>>]] : x \in H}
  \cup {[op |-> "modify", x |-> x, a |-> [op |-> "modify", name |-> "a", col |-> <<4>>]] : x \in H}
  \cup {[op |-> o, x |-> x, o |-> y, a |-> [op |-> o]] : x \in H, y \in H, o \in {"rbind", "cbind", "update"}}
  \cup {[op |-> o, x |-> x, o |-> y] : x \in H, y \in H, o \in {"left", "inner", "semi", "anti"}}
  \cup {[op |-> o, x |-> x] : x \in H, o \in {"deepcopy", "copy"}}
  \cup {[op |-> "setitem", x |-> x, name |-> nm, col |-> c] : x \in H, nm \in {"a", "y"}, c \in {<<4>>, <<0, 2>>, <<0, 2, 4>>}}
  \cup {[op |-> "setcol", x |-> x, o |-> y, name |-> "y", oname |-> "k"] : x \in H, y \in H}
  \cup {[op |-> o, x |-> x, name |-> "k"] : x \in H, o \in {"delitem", "pop"}}
  \cup {[op |-> "poke", x |-> x, name |-> "k", i |-> 1, v |-> 4] : x \in H}
=============================================================================
