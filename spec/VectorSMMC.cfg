SPECIFICATION Spec
PROPERTY Local
