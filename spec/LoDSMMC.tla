------------------------------- MODULE LoDSMMC -------------------------------
(* Exhaustive exploration of the ListOfDicts session machine to a small depth. *)
EXTENDS LoDSM, TLC
CONSTANTS MaxLists, MaxItems
VARIABLES st
It(a, b) == [k \in {"a", "b"} |-> IF k = "a" THEN a ELSE b]
Init == st = [items |-> <<It(0, None), It(1, 1), [a |-> 0]>>,
              lists |-> <<NewList(<<1, 2, 3>>, {}, {})>>]
Preds == {[f |-> "a_eq", v |-> 0], [f |-> "b_notnone"]}
Fns == {[f |-> "const", v |-> 1], [f |-> "from", k |-> "a"]}
UnaryArgs ==
       {[op |-> "filter", p |-> p] : p \in Preds} \cup {[op |-> "filter_out", p |-> p] : p \in Preds}
  \cup {[op |-> "sort", keys |-> <<"a">>, dirs |-> <<-1>>], [op |-> "unique", keys |-> <<"a">>],
        [op |-> "head", n |-> 1], [op |-> "tail", n |-> 2], [op |-> "reverse"], [op |-> "copy"], [op |-> "mul", n |-> 2],
        [op |-> "slice", lo |-> 1, hi |-> Unset, step |-> 1], [op |-> "drop_na", keys |-> <<"b">>],
        [op |-> "append", item |-> It(1, 0)], [op |-> "insert", i |-> 0, item |-> It(None, 0)],
        [op |-> "deepcopy"], [op |-> "fill_all"], [op |-> "fill", kv |-> <<<<"b", 0>>>>],
        [op |-> "select", keys |-> <<"a">>], [op |-> "unselect", keys |-> <<"b">>],
        [op |-> "rename", pairs |-> <<<<"x", "b">>>>]}
  \cup {[op |-> "modify", k |-> k, g |-> g] : k \in {"b", "x"}, g \in Fns}
  \cup {[op |-> "modify_if", p |-> p, k |-> "b", g |-> g] : p \in Preds, g \in Fns}
BinaryArgs == {[op |-> o] : o \in {"extend", "add", "semi", "anti", "inner", "left"}}
Events == {[x |-> x, o |-> 0, a |-> a] : x \in DOMAIN st.lists, a \in UnaryArgs}
     \cup {[x |-> x, o |-> o, a |-> a] : x \in DOMAIN st.lists, o \in DOMAIN st.lists, a \in BinaryArgs}
Next == /\ Len(st.lists) < MaxLists /\ Len(st.items) <= MaxItems
        /\ \E e \in Events : EventOK(st, e) /\ st' = Step(st, e)
Spec == Init /\ [][Next]_st
Inv == ModelInv(st)
ActionProps == \A e \in Events : EventOK(st, e) =>
                  NonModifyingLeavesItems(st, e) /\ EditorsFlag(st, e) /\ OnlyReceiverItemsEdited(st, e)
=============================================================================
