------------------------------- MODULE LoDSMMC -------------------------------
(* Exhaustive exploration of the ListOfDicts session machine to a small depth. *)
EXTENDS LoDSMEvents, TLC
CONSTANTS MaxLists, MaxItems
VARIABLES st
Init == st = InitSt
Events == EventsOf(st) \cup PokesOf(st)
Next == /\ Len(st.lists) < MaxLists /\ Len(st.items) <= MaxItems
        /\ \E e \in Events : EventOK(st, e) /\ st' = Step(st, e)
Spec == Init /\ [][Next]_st
Inv == ModelInv(st)
ActionProps == \A e \in Events : EventOK(st, e) =>
                  NonModifyingLeavesItems(st, e) /\ EditorsFlag(st, e) /\ OnlyReceiverItemsEdited(st, e) /\ DeepcopyIsolated(st, e)
=============================================================================
