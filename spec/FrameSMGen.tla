------------------------------ MODULE FrameSMGen ------------------------------
(* Behaviour generator: every behaviour of the DataFrame session machine of exactly Depth calls, emitted with its
   event history as one JSON line - replayed call by call on real frames (spec -> code). *)
EXTENDS FrameSMEvents, TLC, Json
CONSTANTS MaxFrames, Depth
VARIABLES st, hist
Init == st = InitSt /\ hist = <<>>
Next == /\ Len(st.frames) < MaxFrames /\ Len(hist) < Depth
        /\ \E e \in EventsOf(st), sh \in BOOLEAN :
              /\ EventOK(st, e) /\ (sh => e.op = "setcol")
              /\ st' = IF MustFail(st, e) THEN st ELSE Step(st, e, sh)
              /\ hist' = Append(hist, e)
              /\ (Len(hist') = Depth => PrintT(ToJson([hist |-> hist'])))
Spec == Init /\ [][Next]_<<st, hist>>
Inv == AllWF(st)
=============================================================================
