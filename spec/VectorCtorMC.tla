---------------------------- MODULE VectorCtorMC ----------------------------
EXTENDS VectorCtor, TLC, Json
CONSTANTS MaxLen, Tags, Emit
VARIABLES tags, done
Init == tags = <<>> /\ done = FALSE
Grow == ~done /\ Len(tags) < MaxLen /\ \E t \in Tags : tags' = Append(tags, t) /\ done' = FALSE
Stop == ~done /\ done' = TRUE /\ tags' = tags /\ (Emit => PrintT(ToJson([tags |-> tags])))
Next == Grow \/ Stop
Spec == Init /\ [][Next]_<<tags, done>>
Inv == done => ModelOK(tags)
=============================================================================
