------------------------------ MODULE GeoJSONMC ------------------------------
EXTENDS GeoJSON, TLC, Json
CONSTANTS MaxFeatures, Emit
VARIABLES fs, done
Absent == -2
Vals == {Absent, Null, 0, 1}
Keys == {"u", "v", "w"}
Mk(u, v, w, g) == [p |-> [k \in {x \in Keys : (IF x = "u" THEN u ELSE IF x = "v" THEN v ELSE w) # Absent} |->
                             IF k = "u" THEN u ELSE IF k = "v" THEN v ELSE w], g |-> g]
Init == fs = <<>> /\ done = FALSE
Grow == ~done /\ Len(fs) < MaxFeatures
        /\ \E u \in Vals, v \in Vals, w \in Vals, g \in 0..2 : fs' = Append(fs, Mk(u, v, w, g)) /\ done' = FALSE
Stop == ~done /\ done' = TRUE /\ fs' = fs /\ (Emit => PrintT(ToJson([features |-> fs])))
Next == Grow \/ Stop
Spec == Init /\ [][Next]_<<fs, done>>
Inv == done => ModelOK([features |-> fs, meta |-> <<<<1, 1>>, <<2, 3>>>>])
=============================================================================
