----------------------------- MODULE VectorMisc -----------------------------
(* Beyond the listed properties: the remaining element-selecting and comparing methods of Vector
   on abstract cell sequences - head, tail, drop_na, range, equal, concat, tolist, sample, map -
   and their laws relative to sort / unique (VectorOps).

   A recorded call is  e = [op, xs, ys (second operand, or <<>>), n, out (sequence result), flag (boolean result), err].  *)
EXTENDS VectorOps

VHead(xs, n) == SubSeq(xs, 1, Min2(n, Len(xs)))
VTail(xs, n) == SubSeq(xs, Len(xs) - Min2(n, Len(xs)) + 1, Len(xs))
DropNA(xs) == SubAt(xs, NonNA(xs))
(* smallest and largest class among the non-missing elements; entirely missing (or empty): free point *)
IsMin(xs, c) == c # NA /\ \E i \in NonNA(xs) : K(xs[i]) = K(c) /\ \A j \in NonNA(xs) : K(c) <= K(xs[j])
IsMax(xs, c) == c # NA /\ \E i \in NonNA(xs) : K(xs[i]) = K(c) /\ \A j \in NonNA(xs) : K(c) >= K(xs[j])
(* equal: same length, missing exactly at the same positions, classes equal elsewhere (== of the values) *)
Equal(xs, ys) == /\ Len(xs) = Len(ys)
                 /\ \A i \in DOMAIN xs : (xs[i] = NA) = (ys[i] = NA)
                 /\ \A i \in DOMAIN xs : xs[i] # NA => K(xs[i]) = K(ys[i])
IsOrderedSubSeq(s, t) ==      \* s picks elements of t at increasing positions
  \E f \in [DOMAIN s -> DOMAIN t] : (\A i, j \in DOMAIN s : i < j => f[i] < f[j]) /\ \A i \in DOMAIN s : t[f[i]] = s[i]

Judge2(e) ==
  IF e.op = "range" /\ NonNA(e.xs) = {} THEN ""           \* no non-missing element: free point (may raise)
  ELSE IF e.err # "" THEN "total:raised:" \o e.op
  ELSE IF e.op = "head" THEN (IF e.out = VHead(e.xs, e.n) THEN "" ELSE "head:not-the-first-min(n,len)-elements")
  ELSE IF e.op = "tail" THEN (IF e.out = VTail(e.xs, e.n) THEN "" ELSE "tail:not-the-last-min(n,len)-elements")
  ELSE IF e.op = "drop_na" THEN (IF e.out = DropNA(e.xs) THEN "" ELSE "drop_na:not-the-non-missing-elements-in-order")
  ELSE IF e.op = "tolist" THEN (IF e.out = e.xs THEN "" ELSE "tolist:elements-or-missing-positions-differ")
  ELSE IF e.op = "concat" THEN (IF e.out = e.xs \o e.ys THEN "" ELSE "concat:not-the-operands-in-order")
  ELSE IF e.op = "map" THEN (IF e.out = e.xs THEN "" ELSE "map:identity-function-not-applied-element-wise-in-order")
  ELSE IF e.op = "sample" THEN
       (IF Len(e.out) = Min2(e.n, Len(e.xs)) /\ IsOrderedSubSeq(e.out, e.xs) THEN "" ELSE "sample:not-min(n,len)-elements-in-original-order")
  ELSE IF e.op = "range" THEN
       (IF NonNA(e.xs) = {} THEN ""
        ELSE IF Len(e.out) = 2 /\ IsMin(e.xs, e.out[1]) /\ IsMax(e.xs, e.out[2]) THEN "" ELSE "range:not-min-and-max-of-the-non-missing-elements")
  ELSE IF e.op = "equal" THEN (IF e.flag = Equal(e.xs, e.ys) THEN "" ELSE "equal:not-elementwise-equality-with-matching-missing-positions")
  ELSE ""

(* laws tying these to sort / unique, checked by TLC on every sequence of the bound *)
MiscLaws(xs) ==
  /\ DropNA(VSort(xs, 1)) = VSort(DropNA(xs), 1)                                   \* sorting puts the missing last, drops commute
  /\ (NonNA(xs) # {} => IsMin(xs, VSort(xs, 1)[1]) /\ IsMax(xs, VSort(xs, -1)[1]))  \* range = ends of the sorted vector
  /\ Equal(xs, xs)
  /\ \A n \in 0..(Len(xs) + 1) : Len(VHead(xs, n)) = Min2(n, Len(xs)) /\ Len(VTail(xs, n)) = Min2(n, Len(xs))
  /\ \A n \in 0..Len(xs) : VHead(xs, n) \o VTail(xs, Len(xs) - n) = xs
  /\ Len(VUnique(DropNA(xs))) = Cardinality({K(xs[i]) : i \in NonNA(xs)})
=============================================================================
