INIT Init
NEXT Next
INVARIANT Inv
INVARIANT ActionProps
CONSTRAINT DepthOK
CONSTANTS
  MaxFrames = 5
  MaxDepth = 3
