----------------------------- MODULE VectorOps -----------------------------
(* C11 - Vector.sort / rank / unique on abstract cell sequences.
   Layer 1: constructive operators + declarative predicates that do not reuse
   them.  Judge* operators return "" or the name of the failing clause.       *)
EXTENDS Cells

(* ---------- order used by sort and rank: NA after everything ---------- *)
Before(xs, dir, i, j) ==
  IF xs[i] = NA THEN FALSE
  ELSE IF xs[j] = NA THEN TRUE
  ELSE IF dir = 1 THEN K(xs[i]) < K(xs[j]) ELSE K(xs[i]) > K(xs[j])

(* ---------- constructive ---------- *)
VSort(xs, dir) ==
  LET B(i, j) == Before(xs, dir, i, j)
      p == StablePerm(Len(xs), B)
  IN  [k \in 1..Len(xs) |-> xs[p[k]]]

NonNA(xs) == {i \in DOMAIN xs : xs[i] # NA}
RankMin(xs) == [i \in 1..Len(xs) |->
  IF xs[i] = NA THEN 1 + Cardinality(NonNA(xs))
  ELSE 1 + Cardinality({j \in NonNA(xs) : K(xs[j]) < K(xs[i])})]
RankMax(xs) == [i \in 1..Len(xs) |->
  IF xs[i] = NA THEN Len(xs)
  ELSE Cardinality({j \in NonNA(xs) : K(xs[j]) <= K(xs[i])})]
RankOrd(xs) ==
  LET B(i, j) == Before(xs, 1, i, j)
  IN  [i \in 1..Len(xs) |-> StablePos(Len(xs), B, i)]
Rank(xs, m) == CASE m = "min" -> RankMin(xs) [] m = "max" -> RankMax(xs) [] OTHER -> RankOrd(xs)

FirstOcc(xs) == {i \in DOMAIN xs : ~\E j \in 1..(i-1) : K(xs[j]) = K(xs[i])}
VUnique(xs) == SubAt(xs, FirstOcc(xs))

(* ---------- declarative ---------- *)
NALast(out) == \A i, j \in DOMAIN out : (i < j /\ out[i] = NA) => out[j] = NA
Ordered(out, dir) ==
  \A i, j \in DOMAIN out : (i < j /\ out[i] # NA /\ out[j] # NA) =>
     IF dir = 1 THEN K(out[i]) <= K(out[j]) ELSE K(out[i]) >= K(out[j])

JudgeSort(xs, dir, out) ==
  IF ~SameBag(xs, out) THEN "sort:not-a-permutation"
  ELSE IF ~NALast(out) THEN "sort:missing-not-last"
  ELSE IF ~Ordered(out, dir) THEN "sort:not-ordered"
  ELSE ""

\* counting definitions, written directly from the statement
StrictlyBefore(xs, j, i) == xs[j] # NA /\ (xs[i] = NA \/ K(xs[j]) < K(xs[i]))
BeforeOrEqual(xs, j, i) == xs[i] = NA \/ (xs[j] # NA /\ K(xs[j]) <= K(xs[i]))
JudgeRank(xs, m, out) ==
  IF Len(out) # Len(xs) THEN "rank:wrong-length"
  ELSE IF m = "min" THEN
     IF \A i \in DOMAIN xs : out[i] = 1 + Cardinality({j \in DOMAIN xs : StrictlyBefore(xs, j, i)})
     THEN "" ELSE "rank:min-not-1+strictly-before"
  ELSE IF m = "max" THEN
     IF \A i \in DOMAIN xs : out[i] = Cardinality({j \in DOMAIN xs : BeforeOrEqual(xs, j, i)})
     THEN "" ELSE "rank:max-not-before-or-equal"
  ELSE
     IF ~IsPerm(out, Len(xs)) THEN "rank:ordinal-not-a-permutation-of-1..n"
     ELSE IF \E i, j \in DOMAIN xs : StrictlyBefore(xs, i, j) /\ out[i] > out[j]
          THEN "rank:ordinal-inconsistent-with-sort"
     ELSE IF \E i, j \in DOMAIN xs : i < j /\ ~StrictlyBefore(xs, i, j) /\ ~StrictlyBefore(xs, j, i)
                                      /\ out[i] > out[j]
          THEN "rank:ordinal-ties-not-by-position"
     ELSE ""

FirstIdx(xs, k) == CHOOSE i \in DOMAIN xs : K(xs[i]) = k /\ \A j \in DOMAIN xs : K(xs[j]) = k => i <= j
JudgeUnique(xs, out) ==
  IF \E a, b \in DOMAIN out : a # b /\ K(out[a]) = K(out[b]) THEN "unique:value-repeated"
  ELSE IF {K(out[a]) : a \in DOMAIN out} # {K(xs[i]) : i \in DOMAIN xs} THEN "unique:not-the-distinct-values"
  ELSE IF ~(Range(out) \subseteq Range(xs)) THEN "unique:value-altered"
  ELSE IF \E a, b \in DOMAIN out : a < b /\ FirstIdx(xs, K(out[a])) > FirstIdx(xs, K(out[b]))
       THEN "unique:not-first-occurrence-order"
  ELSE ""

(* One verdict for one recorded call  e = [xs, op, dir, method, out, err]. *)
Judge(e) ==
  IF e.err # "" THEN "total:raised"
  ELSE IF e.op = "sort" THEN JudgeSort(e.xs, e.dir, e.out)
  ELSE IF e.op = "rank" THEN JudgeRank(e.xs, e.method, e.out)
  ELSE IF e.op = "unique" THEN JudgeUnique(e.xs, e.out)
  ELSE "unknown-op"

(* ---------- properties of the model itself (checked by VectorOpsMC) ---------- *)
ModelOK(xs) ==
  /\ \A d \in {1, -1} : JudgeSort(xs, d, VSort(xs, d)) = ""
  /\ \A m \in {"min", "max", "ordinal"} : JudgeRank(xs, m, Rank(xs, m)) = ""
  /\ JudgeUnique(xs, VUnique(xs)) = ""
  \* mutual consistency
  /\ \A i \in DOMAIN xs : RankMin(xs)[i] <= RankOrd(xs)[i] /\ RankOrd(xs)[i] <= RankMax(xs)[i]
  /\ \A i \in DOMAIN xs : K(VSort(xs, 1)[RankOrd(xs)[i]]) = K(xs[i])
  /\ \A i \in DOMAIN xs : VSort(xs, 1)[RankOrd(xs)[i]] = xs[i]      \* ascending sort is stable
  /\ Len(VUnique(VSort(xs, 1))) = Len(VUnique(xs))
=============================================================================
