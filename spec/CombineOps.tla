----------------------------- MODULE CombineOps -----------------------------
(* C09 - combining and reshaping columns preserves every untouched value. *)
EXTENDS Frame

RECURSIVE FirstSeen(_)
FirstSeen(s) == IF s = <<>> THEN <<>>
                ELSE LET rest == FirstSeen(SubSeq(s, 1, Len(s) - 1)) IN
                     IF s[Len(s)] \in Range(rest) THEN rest ELSE Append(rest, s[Len(s)])
RECURSIVE CatAll(_)
CatAll(ss) == IF ss = <<>> THEN <<>> ELSE ss[1] \o CatAll(Tail(ss))
NACol(n) == [i \in 1..n |-> NA]
Bcast(col, n) == IF Len(col) = n THEN col ELSE [i \in 1..n |-> col[1]]     \* length-1 columns broadcast
Filter(s, P(_)) == SubAt(s, {x \in DOMAIN s : P(s[x])})

(* ---------------- constructive ---------------- *)
Rbind(fs) ==
  LET names == FirstSeen(CatAll([x \in DOMAIN fs |-> fs[x].cols])) IN
  [cols |-> names,
   cell |-> [c \in Range(names) |->
               CatAll([x \in DOMAIN fs |-> IF c \in ColSet(fs[x]) THEN fs[x].cell[c] ELSE NACol(NRow(fs[x]))])]]
Select(f, names) == [cols |-> names, cell |-> [c \in Range(names) |-> f.cell[c]]]
Unselect(f, names) == LET keep(c) == c \notin Range(names) IN
  [cols |-> Filter(f.cols, keep), cell |-> [c \in ColSet(f) \ Range(names) |-> f.cell[c]]]
\* pairs: Seq of <<to, from>>
NewName(pairs, c) == IF \E p \in DOMAIN pairs : pairs[p][2] = c
                     THEN pairs[CHOOSE p \in DOMAIN pairs : pairs[p][2] = c][1] ELSE c
OldName(pairs, f, d) == CHOOSE c \in ColSet(f) : NewName(pairs, c) = d
Rename(f, pairs) ==
  [cols |-> [x \in DOMAIN f.cols |-> NewName(pairs, f.cols[x])],
   cell |-> [d \in {NewName(pairs, c) : c \in ColSet(f)} |-> f.cell[OldName(pairs, f, d)]]]
Colnames(f, names) ==
  [cols |-> names, cell |-> [d \in Range(names) |-> f.cell[f.cols[CHOOSE x \in DOMAIN names : names[x] = d]]]]
Cbind(f, g) == LET new(c) == c \notin ColSet(f) IN
  [cols |-> f.cols \o Filter(g.cols, new),
   cell |-> [c \in ColSet(f) \cup ColSet(g) |-> IF c \in ColSet(f) THEN f.cell[c] ELSE Bcast(g.cell[c], NRow(f))]]
Update(f, g) == LET keep(c) == c \notin ColSet(g) IN
  [cols |-> Filter(f.cols, keep) \o g.cols,
   cell |-> [c \in ColSet(f) \cup ColSet(g) |-> IF c \in ColSet(g) THEN Bcast(g.cell[c], NRow(f)) ELSE f.cell[c]]]
Modify(f, name, col) ==
  [cols |-> IF name \in ColSet(f) THEN f.cols ELSE Append(f.cols, name),
   cell |-> [c \in ColSet(f) \cup {name} |-> IF c = name THEN Bcast(col, NRow(f)) ELSE f.cell[c]]]

Expected(a, fs) ==
  CASE a.op = "rbind"    -> Rbind(fs)
    [] a.op = "select"   -> Select(fs[1], a.names)
    [] a.op = "unselect" -> Unselect(fs[1], a.names)
    [] a.op = "rename"   -> Rename(fs[1], a.pairs)
    [] a.op = "colnames" -> Colnames(fs[1], a.names)
    [] a.op = "cbind"    -> IF Len(fs) = 2 THEN Cbind(fs[1], fs[2]) ELSE Cbind(Cbind(fs[1], fs[2]), fs[3])
    [] a.op = "update"   -> Update(fs[1], fs[2])
    [] a.op = "modify"   -> Modify(fs[1], a.name, a.col)

(* ---------------- declarative ---------------- *)
SameTable(a, b) == /\ Range(a.cols) = Range(b.cols) /\ Len(a.cols) = Len(b.cols)
                   /\ \A c \in Range(a.cols) : a.cell[c] = b.cell[c]
SameFrame(a, b) == a.cols = b.cols /\ SameTable(a, b)
\* the columns the call does not name keep their cells, their names and their relative order
Untouched(f, out, named) ==
  LET keep(c) == c \notin named IN
  /\ \A c \in ColSet(f) \ named : c \in Range(out.cols) /\ out.cell[c] = f.cell[c]
  /\ Filter(out.cols, keep) = Filter(f.cols, keep)
OrderMatters(a) == a.op \in {"rbind", "select", "unselect", "rename", "colnames"}

RbindRowsOK(fs, out) ==       \* each input's rows are recoverable by position; absent columns are NA
  LET off(x) == NRow(Rbind(SubSeq(fs, 1, x - 1))) IN
  /\ NRow(out) = NRow(Rbind(fs))
  /\ \A x \in DOMAIN fs : \A c \in Range(out.cols) : \A t \in 1..NRow(fs[x]) :
        out.cell[c][(IF x = 1 THEN 0 ELSE off(x)) + t] = IF c \in ColSet(fs[x]) THEN fs[x].cell[c][t] ELSE NA

Judge(e) ==
  LET a == e.a  fs == e.fs  out == e.out  f == fs[1] IN
  IF e.err # "" THEN a.op \o ":raised"
  ELSE IF ~WellFormed(out) THEN a.op \o ":result-not-rectangular"
  ELSE IF Range(out.cols) # Range(Expected(a, fs).cols) \/ Len(out.cols) # Len(Expected(a, fs).cols)
       THEN a.op \o ":wrong-column-set"
  ELSE IF OrderMatters(a) /\ out.cols # Expected(a, fs).cols THEN a.op \o ":column-order-or-names-not-as-requested"
  ELSE IF a.op = "rbind" THEN (IF RbindRowsOK(fs, out) THEN "" ELSE "rbind:rows-not-stacked-in-argument-order-with-NA-fill")
  ELSE IF a.op \in {"cbind", "update", "modify"} /\
          ~Untouched(f, out, IF a.op = "cbind" THEN UNION {ColSet(fs[x]) : x \in 2..Len(fs)} \ ColSet(f) ELSE IF a.op = "update" THEN ColSet(fs[2]) ELSE {a.name})
       THEN a.op \o ":untouched-column-changed"
  ELSE IF ~SameTable(out, Expected(a, fs)) THEN a.op \o ":wrong-values"
  ELSE ""

ModelOK(a, fs) ==
  LET x == Expected(a, fs) IN
  /\ WellFormed(x)
  /\ Judge([a |-> a, fs |-> fs, out |-> x, err |-> ""]) = ""
  /\ (a.op = "rbind" => RbindRowsOK(fs, x))
  /\ (a.op \in {"select", "unselect"} => \A c \in Range(x.cols) : x.cell[c] = fs[1].cell[c])
  /\ (a.op \in {"rename", "colnames"} => \A p \in DOMAIN x.cols : x.cell[x.cols[p]] = fs[1].cell[fs[1].cols[p]])
=============================================================================
