----------------------------- MODULE CompareTrace -----------------------------
EXTENDS Compare, TLC, Json, IOUtils
VARIABLES tid, bad, judged
T == JsonDeserialize(IOEnv.TRACE_FILE)
Init == tid = 0 /\ bad = "" /\ judged = FALSE
Pick == /\ tid = 0 /\ \E t \in 1..Len(T) : tid' = t
        /\ UNCHANGED <<bad, judged>>
Step == /\ tid > 0 /\ ~judged
        /\ LET v == JudgeCompare(T[tid]) IN
             /\ bad' = v
             /\ (v # "" => PrintT(ToJson([BAD |-> v, tid |-> tid])))
        /\ judged' = TRUE /\ UNCHANGED tid
Next == Pick \/ Step
Spec == Init /\ [][Next]_<<tid, bad, judged>>
Accepted == bad = ""
=============================================================================
