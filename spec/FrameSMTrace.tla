----------------------------- MODULE FrameSMTrace -----------------------------
(* Validates DataFrame histories recorded from the real class against FrameSM.
   After every call the observation holds, for every live frame: column names in order, the
   cells of every column, a memory-identity id for every column buffer, the grouping, the
   attribute/key coherence triple for every name of the universe, and shape flags.          *)
EXTENDS FrameSM, TLC, Json, IOUtils
VARIABLES tid, l, st, bad
T == JsonDeserialize(IOEnv.TRACE_FILE)

InitState(tr) ==
  LET RECURSIVE Build(_, _)
      Build(s, i) == IF i > Len(tr.init) THEN s ELSE Build(AddFresh(s, tr.init[i], <<>>), i + 1)
  IN Build([bufs |-> <<>>, frames |-> <<>>], 1)

Ident(n) == n \notin {"a b"}
Clash(n) == n \in {"items", "sort"}

ObsFrame(of) == [cols |-> of.cols, cell |-> of.cell]

Shares(s, e) == e.op = "setcol" /\ e.obs.err = "" /\ Len(e.obs.frames) = Len(s.frames)
                /\ e.name \in DOMAIN e.obs.frames[e.x].bid /\ e.oname \in DOMAIN e.obs.frames[e.o].bid
                /\ e.obs.frames[e.x].bid[e.name] = e.obs.frames[e.o].bid[e.oname]

(* colnames assignment edits in place; whether a renamed column stays the very array that a shallow
   copy also holds is not promised: columns observed to have been re-created get a fresh buffer *)
RECURSIVE Rebuf(_, _, _, _)
Rebuf(s, x, obs, i) ==
  IF i > Len(s.frames[x].cols) THEN s
  ELSE LET c == s.frames[x].cols[i]
           detached == \E h \in DOMAIN s.frames : \E d \in Range(s.frames[h].cols) :
                          /\ <<h, d>> # <<x, c>> /\ s.frames[h].buf[d] = s.frames[x].buf[c]
                          /\ obs.frames[h].bid[d] # obs.frames[x].bid[c]
       IN IF detached
          THEN Rebuf([bufs |-> Append(s.bufs, s.bufs[s.frames[x].buf[c]]),
                      frames |-> [s.frames EXCEPT ![x].buf[c] = Len(s.bufs) + 1]], x, obs, i + 1)
          ELSE Rebuf(s, x, obs, i + 1)
ObsShapeOK(s, obs) == obs.err = "" /\ Len(obs.frames) = Len(s.frames)
                      /\ \A h \in DOMAIN s.frames : Range(obs.frames[h].cols) = Range(s.frames[h].cols)

Expected(s, e) ==
  IF e.op = "full" THEN AddFresh(s, ObsFrame(e.obs.frames[Len(e.obs.frames)]), <<>>)
  ELSE IF e.op = "colnames" /\ ObsShapeOK(Step(s, e, FALSE), e.obs) THEN Rebuf(Step(s, e, FALSE), e.x, e.obs, 1)
  ELSE Step(s, e, Shares(s, e))

AddsFrame(e) == e.op \in Transforming \cup {"copy", "ctor"}

(* aliasing: two columns share memory in the observation iff they hold one buffer in the model *)
PartitionOK(exp, obs) ==
  \A h1, h2 \in DOMAIN exp.frames : \A c1 \in Range(exp.frames[h1].cols), c2 \in Range(exp.frames[h2].cols) :
     (exp.frames[h1].buf[c1] = exp.frames[h2].buf[c2]) <=> (obs.frames[h1].bid[c1] = obs.frames[h2].bid[c2])

AttrOK(exp, obs) ==
  \A h \in DOMAIN exp.frames : \A n \in DOMAIN obs.frames[h].attr :
     LET isCol == n \in Range(exp.frames[h].cols)  t == obs.frames[h].attr[n] IN
     /\ t[1] = isCol                                              \* name in data
     /\ (Ident(n) /\ ~Clash(n)) => (t[2] = isCol /\ t[3] = isCol)  \* hasattr, and getattr is the very column
     /\ Clash(n) => ~t[3]                                         \* a method name never resolves to a column

Clause(s, e) ==
  LET exp == Expected(s, e)  obs == e.obs  op == e.op  n == Len(s.frames) IN
  IF MustFail(s, e) THEN
       (IF obs.err = "" THEN (IF TwoD(e) THEN "C01:two-dimensional-value-stored-as-a-column" ELSE "C01:length-mismatch-stored-instead-of-rejected")
        ELSE IF \E h \in 1..n : ObsFrame(obs.frames[h]) # View(s, h) THEN "C01:rejected-assignment-still-changed-the-frame" ELSE "")
  ELSE IF obs.err # "" THEN "SM:raised:" \o op
  ELSE IF Len(obs.frames) # Len(exp.frames) THEN "SM:no-new-frame:" \o op
  ELSE IF \E h \in DOMAIN obs.frames : ~obs.frames[h].shape_ok THEN "C01:column-not-a-1-d-column-vector-of-nrow"
  ELSE IF \E h \in DOMAIN obs.frames : ~WellFormed(ObsFrame(obs.frames[h])) THEN "C01:not-rectangular-or-duplicate-names"
  ELSE IF (op \in Transforming \cup Observers \cup {"copy", "ctor"}) /\ \E h \in 1..n : ObsFrame(obs.frames[h]) # View(s, h)
       THEN "C06:operand-changed-by:" \o op
  ELSE IF (op \in Transforming \cup Observers \cup {"copy", "ctor"}) /\ \E h \in 1..n : obs.frames[h].grp # s.frames[h].grp
       THEN "C06:operand-grouping-changed-by:" \o op
  ELSE IF op = "full" /\ ~J!FullJoinOK(View(s, e.x), View(s, e.o), <<"k">>, ObsFrame(obs.frames[n + 1]))
       THEN "SM:full_join-loses-rows-or-pairs-unequal-keys"
  ELSE IF \E h \in DOMAIN exp.frames : obs.frames[h].cols # exp.frames[h].cols /\ Range(obs.frames[h].cols) # Range(exp.frames[h].cols)
       THEN (IF op \in InPlaceOps THEN "C01:wrong-columns-after:" \o op ELSE "SM:wrong-result-columns:" \o op)
  ELSE IF \E h \in DOMAIN exp.frames : \E c \in Range(exp.frames[h].cols) : obs.frames[h].cell[c] # View(exp, h).cell[c]
       THEN (IF op = "poke" THEN "C06:in-place-write-visible-through-another-object"
             ELSE IF op \in InPlaceOps THEN "C01:wrong-values-after:" \o op ELSE "SM:wrong-result-values:" \o op)
  ELSE IF \E h \in DOMAIN exp.frames : obs.frames[h].cols # exp.frames[h].cols /\ op \in {"colnames", "setitem", "setcol", "delitem", "delattr", "pop", "select", "rename"}
       THEN "C01:column-order-not-stable:" \o op
  ELSE IF ~PartitionOK(exp, obs) THEN
       (IF op \in Transforming THEN "C06:result-shares-memory-with-an-operand:" \o op ELSE "C06:unexpected-aliasing-after:" \o op)
  ELSE IF \E h \in DOMAIN exp.frames : obs.frames[h].grp # exp.frames[h].grp THEN "C06:grouping-not-as-documented:" \o op
  ELSE IF op = "group_by" /\ ~obs.same THEN "C06:group_by-did-not-return-the-receiver"
  ELSE IF ~AttrOK(exp, obs) THEN "C01:attribute-and-key-access-incoherent-after:" \o op
  ELSE ""

Adopt(s, e) ==     \* keep the model's heap structure where the observation has the same shape, else stop judging this trace
  LET exp == Expected(s, e) IN
  IF MustFail(s, e) THEN s ELSE exp

Comparable(s, e) ==      \* the observation can be compared cell by cell with the model state
  LET exp == Expected(s, e)  obs == e.obs IN
  /\ obs.err = "" /\ Len(obs.frames) = Len(exp.frames)
  /\ \A h \in DOMAIN exp.frames : /\ Range(obs.frames[h].cols) = Range(exp.frames[h].cols)
                                  /\ \A c \in Range(exp.frames[h].cols) : obs.frames[h].cell[c] = View(exp, h).cell[c]

Init == tid = 0 /\ l = 0 /\ st = [bufs |-> <<>>, frames |-> <<>>] /\ bad = ""
Pick1 == /\ tid = 0 /\ \E t \in 1..Len(T) : tid' = t /\ st' = InitState(T[t])
         /\ l' = 1 /\ bad' = ""
Next1 == /\ tid > 0 /\ l >= 1 /\ l <= Len(T[tid].steps)
         /\ LET e == T[tid].steps[l] IN
              IF ~EventOK(st, e) THEN /\ bad' = "" /\ st' = st /\ l' = Len(T[tid].steps) + 1     \* unsupported input: stop, unjudged
                                      /\ PrintT(ToJson([SKIP |-> e.op, tid |-> tid, step |-> l]))
              ELSE LET v == Clause(st, e) IN
                   /\ bad' = v
                   /\ (v # "" => PrintT(ToJson([BAD |-> v, tid |-> tid, step |-> l])))
                   /\ st' = Adopt(st, e)
                   \* after a rejected step the model and the object may differ: the rest is not judged
                   /\ l' = IF v = "" /\ (MustFail(st, e) \/ Comparable(st, e)) THEN l + 1 ELSE Len(T[tid].steps) + 1
         /\ UNCHANGED tid
Next == Pick1 \/ Next1
Spec == Init /\ [][Next]_<<tid, l, st, bad>>
Accepted == bad = ""
=============================================================================
