------------------------------ MODULE CalendarMC ------------------------------
EXTENDS Calendar, TLC
CONSTANTS Years
VARIABLES n
Init == n \in {Ordinal(y, 1, 1) : y \in Years}
Next == n + 1 < Ordinal(9999, 12, 31) /\ DayOfYear(n) < DaysInYear(YearOf(n)) /\ n' = n + 1
Spec == Init /\ [][Next]_n
Inv == LawsAt(n)
=============================================================================
