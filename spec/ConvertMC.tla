------------------------------ MODULE ConvertMC ------------------------------
EXTENDS Convert, TLC, Json
CONSTANTS MaxRows, PosCells, Emit
VARIABLES ca, cb, done
CellSet == {NA} \cup PosCells
Fr == [cols |-> <<"a", "b">>, cell |-> [c \in {"a", "b"} |-> IF c = "a" THEN ca ELSE cb]]
Init == ca = <<>> /\ cb = <<>> /\ done = FALSE
Grow == ~done /\ Len(ca) < MaxRows /\ \E x \in CellSet, y \in CellSet : ca' = Append(ca, x) /\ cb' = Append(cb, y) /\ done' = FALSE
Stop == ~done /\ Len(ca) >= 1 /\ done' = TRUE /\ UNCHANGED <<ca, cb>> /\ (Emit => PrintT(ToJson([fr |-> Fr])))
Next == Grow \/ Stop
Spec == Init /\ [][Next]_<<ca, cb, done>>
Inv == done => ModelOK(Fr, [c \in {"a", "b"} |-> "float"])
=============================================================================
