INIT Init
NEXT Next
INVARIANT Inv
INVARIANT ActionProps
CONSTANTS
  MaxLists = 4
  MaxItems = 12
