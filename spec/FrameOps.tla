------------------------------ MODULE FrameOps ------------------------------
(* C02 (row subsetting) and C03 (sort) on abstract frames.
   An argument record a has a.op and the fields that op reads:
     mask (Seq BOOLEAN) | idx (Seq Nat, 0-based) | n | cols (Seq STRING) |
     kv (Seq of <<col, cell>>) | keys (Seq STRING), dirs (Seq {1,-1})          *)
EXTENDS Frame

(* ---------------- constructive: expected pick ---------------- *)
Mask(f, a) ==
  IF a.op \in {"filter", "filter_out"} THEN a.mask
  ELSE [i \in 1..NRow(f) |-> \A t \in DOMAIN a.kv : K(f.cell[a.kv[t][1]][i]) = K(a.kv[t][2])]

Pick(f, a) ==
  LET n == NRow(f) IN
  CASE a.op \in {"filter", "filter_kv"}         -> IdxSeq({i \in 1..n : Mask(f, a)[i]})
    [] a.op \in {"filter_out", "filter_out_kv"} -> IdxSeq({i \in 1..n : ~Mask(f, a)[i]})
    [] a.op = "slice"     -> [t \in 1..Len(a.idx) |-> a.idx[t] + 1]
    [] a.op = "slice_off" -> IdxSeq({i \in 1..n : (i - 1) \notin Range(a.idx)})
    [] a.op = "head"      -> [t \in 1..Min2(a.n, n) |-> t]
    [] a.op = "tail"      -> [t \in 1..Min2(a.n, n) |-> n - Min2(a.n, n) + t]
    [] a.op = "drop_na"   -> IdxSeq({i \in 1..n : ~AnyNAOn(f, Range(a.cols), i)})
    [] a.op = "unique"    -> IdxSeq({i \in 1..n : ~\E h \in 1..(i-1) : SameKeyOn(f, Range(a.cols), h, i)})

Deterministic(a) == a.op \notin {"sample", "sort"}

(* ---------------- declarative (C02) ---------------- *)
SampleOK(f, a, pick) ==
  /\ Len(pick) = Min2(a.n, NRow(f))
  /\ Increasing(pick)
  /\ \A t \in DOMAIN pick : pick[t] \in 1..NRow(f)

\* restatements that do not go through IdxSeq / Pick
KeptSetOK(f, a, S) ==
  LET n == NRow(f) IN
  CASE a.op \in {"filter", "filter_kv"}         -> S = {i \in 1..n : Mask(f, a)[i]}
    [] a.op \in {"filter_out", "filter_out_kv"} -> S = (1..n) \ {i \in 1..n : Mask(f, a)[i]}
    [] a.op = "slice_off" -> S = {i \in 1..n : \A t \in DOMAIN a.idx : a.idx[t] # i - 1}
    [] a.op = "head"      -> Cardinality(S) = Min2(a.n, n) /\ \A i \in S, h \in 1..n : h < i => h \in S
    [] a.op = "tail"      -> Cardinality(S) = Min2(a.n, n) /\ \A i \in S, h \in 1..n : h > i => h \in S
    [] a.op = "drop_na"   -> \A i \in 1..n : i \in S <=> \A c \in Range(a.cols) : f.cell[c][i] # NA
    [] a.op = "unique"    ->
         /\ \A x, y \in S : x # y => ~SameKeyOn(f, Range(a.cols), x, y)
         /\ \A i \in 1..n : \E x \in S : x <= i /\ SameKeyOn(f, Range(a.cols), x, i)
    [] OTHER -> TRUE

(* ---------------- declarative (C03): stable, lexicographic, NA placement ---------------- *)
RECURSIVE LevelOK(_, _, _, _, _, _)
LevelOK(f, keys, dirs, out, j, pq) ==      \* positions pq[1]..pq[2] of out are tied on keys 1..j-1
  LET p == pq[1]  q == pq[2] IN
  IF p >= q THEN TRUE
  ELSE IF j > Len(keys) THEN \A x \in p..(q-1) : out[x] < out[x+1]             \* stability
  ELSE LET k(x)  == f.cell[keys[j]][out[x]]
           nas   == {x \in p..q : k(x) = NA}
           nn    == Cardinality(nas)
           prefix == nas = p..(p + nn - 1)
           suffix == nas = (q - nn + 1)..q
           runStart(x) == x = p \/ K(k(x-1)) # K(k(x))
       IN /\ IF dirs[j] = 1 THEN suffix ELSE (prefix \/ suffix)                  \* the free point
          /\ \A x, y \in (p..q) \ nas : x < y =>
                IF dirs[j] = 1 THEN K(k(x)) <= K(k(y)) ELSE K(k(x)) >= K(k(y))
          /\ \A x \in p..q : runStart(x) =>
                LET e == CHOOSE y \in x..q : (y = q \/ K(k(y+1)) # K(k(y))) /\ \A z \in x..y : K(k(z)) = K(k(x))
                IN  LevelOK(f, keys, dirs, out, j + 1, <<x, e>>)
SortOK(f, keys, dirs, pick) ==
  /\ IsPerm(pick, NRow(f))
  /\ LevelOK(f, keys, dirs, pick, 1, <<1, NRow(f)>>)

(* constructive sort with the free NA side fixed to "last" for every key *)
SortBefore(f, keys, dirs, x, y) ==
  \E j \in DOMAIN keys :
     /\ \A h \in 1..(j-1) : K(f.cell[keys[h]][x]) = K(f.cell[keys[h]][y])
     /\ LET a == f.cell[keys[j]][x]  b == f.cell[keys[j]][y] IN
          IF a = NA THEN FALSE ELSE IF b = NA THEN TRUE
          ELSE IF dirs[j] = 1 THEN K(a) < K(b) ELSE K(a) > K(b)
SortPick(f, keys, dirs) ==
  LET B(x, y) == SortBefore(f, keys, dirs, x, y) IN StablePerm(NRow(f), B)

(* ---------------- verdict for one recorded call ---------------- *)
Judge(e) ==
  LET f == e.fr  a == e.a  out == e.out IN
  IF e.err # "" THEN a.op \o ":raised"
  ELSE IF ~WellFormed(out) THEN a.op \o ":result-not-rectangular"
  ELSE IF ~WholeRows(f, out) THEN a.op \o ":not-whole-input-rows"
  ELSE LET pick == ObsPick(f, out) IN
    IF a.op = "sample" THEN (IF SampleOK(f, a, pick) THEN "" ELSE "sample:not-n-distinct-rows-in-order")
    ELSE IF a.op = "sort" THEN
       (IF ~IsPerm(pick, NRow(f)) THEN "sort:not-a-permutation-of-rows"
        ELSE IF SortOK(f, a.keys, a.dirs, pick) THEN "" ELSE "sort:not-stable-key-order")
    ELSE IF pick = Pick(f, a) THEN ""
    ELSE IF a.op = "slice" THEN "slice:wrong-positions"
    ELSE IF Range(pick) # Range(Pick(f, a)) \/ Len(pick) # Len(Pick(f, a)) THEN a.op \o ":wrong-rows-kept"
    ELSE a.op \o ":order-not-kept"

(* ---------------- properties of the model itself ---------------- *)
ModelOK(f, a) ==
  IF a.op = "sort" THEN SortOK(f, a.keys, a.dirs, SortPick(f, a.keys, a.dirs))
  ELSE IF a.op = "sample" THEN TRUE
  ELSE /\ KeptSetOK(f, a, Range(Pick(f, a)))
       /\ (a.op # "slice" => Increasing(Pick(f, a)))
       /\ \A t \in DOMAIN Pick(f, a) : Pick(f, a)[t] \in 1..NRow(f)
       /\ WholeRows(f, Rows(f, Pick(f, a)))
       /\ ObsPick(f, Rows(f, Pick(f, a))) = Pick(f, a)
=============================================================================
