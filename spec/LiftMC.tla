-------------------------------- MODULE LiftMC --------------------------------
(* All NA masks and lengths 0..MaxLen over a small set of instants; emits the mask/shape space. *)
EXTENDS Lift, TLC, Json
CONSTANTS MaxLen, Emit
VARIABLES xs, done
Elems == {[na |-> TRUE, ord |-> 0, sod |-> 0, us |-> 0]} \cup
         {[na |-> FALSE, ord |-> Ordinal(y, m, d), sod |-> s, us |-> u] :
            y \in {1, 2020}, m \in {1, 12}, d \in {1, 28}, s \in {0, 86399}, u \in {0, 999999}}
Init == xs = <<>> /\ done = FALSE
Grow == ~done /\ Len(xs) < MaxLen /\ \E x \in Elems : xs' = Append(xs, x) /\ done' = FALSE
Stop == ~done /\ done' = TRUE /\ xs' = xs /\ (Emit => PrintT(ToJson([mask |-> [i \in DOMAIN xs |-> xs[i].na]])))
Next == Grow \/ Stop
Spec == Init /\ [][Next]_<<xs, done>>
Inv == done => ModelOK(xs)
=============================================================================
