------------------------------- MODULE AggJitMC -------------------------------
(* Enumerates histories: first-use orders of kernels, process boundaries with the
   cache on or off, cache wipes.  Emits every complete history as JSON.        *)
EXTENDS AggJit, TLC, Json
CONSTANTS Helpers, Kinds, MaxCalls, MaxProcs, Emit, TwoHelperCalls
VARIABLES hist, jit, done
Calls(h) == Cardinality({i \in DOMAIN h : h[i].t = "call"})
Procs(h) == Cardinality({i \in DOMAIN h : h[i].t = "proc"})
Init == hist = <<[t |-> "proc", cache |-> TRUE]>> /\ jit = InitJit /\ done = FALSE
InitOff == hist = <<[t |-> "proc", cache |-> FALSE]>> /\ jit = [InitJit EXCEPT !.cacheOn = FALSE] /\ done = FALSE
(* one aggregate() call with one helper, or with two helpers on the same column ("in the same call") *)
Call == /\ ~done /\ Calls(hist) < MaxCalls
        /\ \E h \in Helpers, k \in Kinds, h2 \in Helpers \cup {""}, py \in BOOLEAN :
              /\ Accepts(h, k) /\ (h2 # "" => Accepts(h2, k) /\ h2 # h /\ TwoHelperCalls)
              /\ (py => h \in PyCapable /\ h2 = "" /\ (h = "median" => k = "float"))     \* only a float column holds NaN
              /\ LET j1 == AfterCall(jit, h, k) IN
                 /\ hist' = Append(hist, [t |-> "call", h |-> h, kind |-> k, py |-> py,
                                         status |-> IF py THEN "python" ELSE Status(jit, h, k),
                                         broken |-> IF py THEN FALSE ELSE Broken(jit, h, k), h2 |-> h2,
                                         status2 |-> IF h2 = "" THEN "" ELSE Status(j1, h2, k),
                                         broken2 |-> IF h2 = "" THEN FALSE ELSE Broken(j1, h2, k)])
                 /\ jit' = IF py THEN jit ELSE IF h2 = "" THEN j1 ELSE AfterCall(j1, h2, k)
        /\ done' = FALSE
Proc == /\ ~done /\ Procs(hist) < MaxProcs /\ hist[Len(hist)].t = "call"
        /\ \E c \in BOOLEAN : hist' = Append(hist, [t |-> "proc", cache |-> c]) /\ jit' = NewProcess(jit, c)
        /\ done' = FALSE
Stop == /\ ~done /\ Calls(hist) >= 1 /\ hist[Len(hist)].t = "call"
        /\ done' = TRUE /\ UNCHANGED <<hist, jit>>
        /\ (Emit => PrintT(ToJson([hist |-> hist])))
Next == Call \/ Proc \/ Stop
Spec == (Init \/ InitOff) /\ [][Next]_<<hist, jit, done>>
(* the predicted JIT state is a function of the history alone *)
\* the damage model never predicts a broken call without an earlier max/min compile of that kind
BrokenNeedsCause == \A i \in DOMAIN hist : (hist[i].t = "call" /\ hist[i].broken) =>
                       \E p \in 1..(i-1) : hist[p].t = "call" /\ (hist[p].h \in {"max", "min"} \/ hist[p].h2 \in {"max", "min"})
                                             /\ SpecOf(hist[p].h, hist[p].kind)[2] = SpecOf(hist[i].h, hist[i].kind)[2]
Inv == BrokenNeedsCause /\ jit.mem \subseteq {SpecOf(h, k) : h \in Helpers, k \in Kinds}
       /\ (jit.cacheOn => jit.mem \subseteq jit.disk \/ TRUE)
       /\ Replay(IF hist[1].cache THEN InitJit ELSE [InitJit EXCEPT !.cacheOn = FALSE], hist, Len(hist)).mem = jit.mem
=============================================================================
