------------------------------ MODULE CompareMC ------------------------------
EXTENDS Compare, TLC
CONSTANTS MaxRows, PosCells
CellSet == {NA} \cup PosCells
VARIABLES X, Y, turn
Empty == [cols |-> <<"k", "j">>, cell |-> [c \in {"k", "j"} |-> <<>>]]
AddRow(F, a, b) == [cols |-> F.cols, cell |-> [c \in {"k", "j"} |-> Append(F.cell[c], IF c = "k" THEN a ELSE b)]]
Init == X = Empty /\ Y = Empty /\ turn = "x"
GrowX == turn = "x" /\ NRow(X) < MaxRows /\ \E a, b \in CellSet : X' = AddRow(X, a, b) /\ UNCHANGED <<Y, turn>>
Switch == turn = "x" /\ turn' = "y" /\ UNCHANGED <<X, Y>>
GrowY == turn = "y" /\ NRow(Y) < MaxRows /\ \E a, b \in CellSet : Y' = AddRow(Y, a, b) /\ UNCHANGED <<X, turn>>
Next == GrowX \/ Switch \/ GrowY
Spec == Init /\ [][Next]_<<X, Y, turn>>
Inv == CompareLaws(X, Y)
=============================================================================
