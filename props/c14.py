"""C14 - restricting or aliasing a read never changes what is read (Store machine, read clauses with restriction/alias/cast)."""
from props import c12


def run(ctx):
    c12.run_for(ctx, "C14")


def replay(ctx, rp):
    c12.replay_for(ctx, rp, "C14")
