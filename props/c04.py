"""C04 - grouping partitions the rows; one summary row per distinct key."""
import math

import numpy as np

from harness import gamma
from props import c02, frames

OPS = ["aggregate", "count", "split", "gmodify", "helper"]
HELPERS = ["count", "sum", "mean", "min", "max", "first", "last", "median", "mode", "nth", "std", "var",
           "quantile", "any", "all", "count_unique", "std1", "std2", "var1", "var2"]


def _rec_ids(x):
    return ",".join(str(int(v)) for v in x.r)


def _rec_mask(x):
    # grouped modify broadcasts the function's result over the group's rows; a string longer than 15 bytes
    # would crash NumPy 2.0.2's ndarray.repeat (environment defect), so the ids are packed into a number.
    # Single-row groups return an int, larger groups a float with fraction .5 (group-wise results of different
    # dtypes must be promoted, not cast to the first group's dtype).
    m = 0
    for v in x.r:
        m |= 1 << int(v)
    return m if x.nrow == 1 else m + 0.5


def _parse_mask(m):
    ids = [2 * i for i in range(64) if int(m) >> i & 1]
    frac = float(m) - int(m)
    if (len(ids) == 1) != (frac == 0.0):
        return [gamma.ALIEN]            # the value lost (or gained) its fraction: not the function's result for this group
    return ids


def _parse_ids(s):
    s = str(s)
    return [2 * int(t) for t in s.split(",")] if s else []


def _helper_pair(di, name):
    if name in ("std1", "std2", "var1", "var2"):
        f, dd = getattr(di, name[:3]), int(name[3])
        return f("x", ddof=dd), (lambda d: f(d.x, ddof=dd))
    if name == "count":
        return di.count(), (lambda d: d.nrow)
    if name == "nth":
        return di.nth("x", 1), (lambda d: di.nth(d.x, 1))
    if name == "quantile":
        return di.quantile("x", 0.25), (lambda d: di.quantile(d.x, 0.25))
    f = getattr(di, name)
    return f("x"), (lambda d: f(d.x))


def _same(a, b):
    # missing in both forms is the same summary whatever the representation (NaN vs None)
    if gamma.is_missing(a) or gamma.is_missing(b):
        return gamma.is_missing(a) and gamma.is_missing(b)
    try:
        fa, fb = float(a), float(b)
        if math.isnan(fa) or math.isnan(fb):
            return math.isnan(fa) and math.isnan(fb)
        return math.isclose(fa, fb, rel_tol=1e-9, abs_tol=1e-12)
    except (TypeError, ValueError):
        return a == b


def execute(fr, a, pals, op, helper=None):
    import dataiter as di
    by = a["by"]
    rec = {"fr": fr, "a": {"op": op, "by": by}, "err": ""}
    try:
        d = frames.build(fr, pals)
        if op == "aggregate":
            out = d.group_by(*by).aggregate(s=_rec_ids)
            rec["keys"] = [list(t) for t in zip(*[pals[c].alpha_seq(out[c]) for c in by])] if out.nrow else []
            rec["groups"] = [_parse_ids(s) for s in np.asarray(out["s"]).tolist()]
        elif op == "count":
            out = d.count(*by)
            rec["keys"] = [list(t) for t in zip(*[pals[c].alpha_seq(out[c]) for c in by])] if out.nrow else []
            rec["ns"] = [int(v) for v in np.asarray(out["n"]).tolist()]
        elif op == "split":
            out = d.split(*by)
            rec["sets"] = [[int(i) + 1 for i in np.asarray(s).tolist()] for s in out]
            # an empty index set is disjoint from every other set and covers no row: the statement
            # ("disjoint index sets covering every row") is indifferent to it, so it is not shipped
            rec["sets"] = [s for s in rec["sets"] if s]
        elif op == "gmodify":
            out = d.group_by(*by).modify(g=_rec_mask)
            rec["rowgroups"] = [_parse_mask(s) for s in np.asarray(out["g"]).tolist()]
            rec["out"] = frames.observe(out.unselect("g"), pals)
        elif op == "helper":
            rec["a"]["helper"] = helper
            d["x"] = [1.5 * i - 1 for i in range(d.nrow)]
            short, lam = _helper_pair(di, helper)
            old = di.USE_NUMBA
            di.USE_NUMBA = False
            try:
                o1 = d.deepcopy().group_by(*by).aggregate(y=short)
                o2 = d.deepcopy().group_by(*by).aggregate(y=lam)
            finally:
                di.USE_NUMBA = old
            y1, y2 = np.asarray(o1["y"]).tolist(), np.asarray(o2["y"]).tolist()
            rec["eq"] = [len(y1) == len(y2)] + [_same(p, q) for p, q in zip(y1, y2)]
    except Exception as e:
        rec["err"] = type(e).__name__ + ": " + str(e)[:100]
    return rec


def sig_of(rec, pals):
    by = rec["a"]["by"]
    s = {"op": rec["a"]["op"], "kinds": sorted(set(pals[c].kind for c in by)),
         "palettes": sorted(set(pals[c].name for c in by)), "nby": len(by)}
    if rec["a"].get("helper"):
        s["helper"] = rec["a"]["helper"]
    s.update(frames.frame_sig(rec["fr"], by))
    return s


def _run_single(ctx):
    quick = ctx.tier == "quick"
    maxrows, cells = (3, [0, 2, 4]) if quick else (3, [0, 2, 3, 4])
    frs, args = c02.generate(ctx, "group", maxrows, cells)
    if not quick:
        ctx.model_check("FrameOpsMC", cfg_text=frames.mc_cfg(
            {"MaxRows": 4, "PosCells": [0, 2], "Emit": False, "Which": "group"}), timeout=3000)
    rng = ctx.rng
    records, meta = [], []
    opcount = {}
    for fr in frs:
        n = len(fr["cell"]["k"])
        bys = args[n]
        chosen = bys if (not quick or n <= 1) else [rng.choice(bys)]
        for a in chosen:
            for _ in range(1 if quick else 3):
                pals = frames.choose_palettes(rng, fr, ["k", "j"])
                pals["r"] = frames.ROWID
                for op in OPS:
                    helper = rng.choice(HELPERS) if op == "helper" else None
                    rec = execute(fr, a, pals, op, helper)
                    records.append(rec)
                    meta.append(pals)
                    opcount[op] = opcount.get(op, 0) + 1
                    ctx.count((repr(fr), repr(a["by"]), op, helper, pals["k"].name, pals["j"].name),
                              frames.nontrivial(fr, a["by"]))
    # twins: -0.0 next to 0.0 form one group (float/inf palette in both group columns)
    for fr in frs:
        if len(fr["cell"]["k"]) < 2 or (2 not in fr["cell"]["k"] and 2 not in fr["cell"]["j"]) or (quick and rng.random() < 0.7):
            continue
        tw = frames.with_twins(rng, fr)
        pals = {"k": gamma.FLOAT_INF, "j": gamma.FLOAT_INF, "r": frames.ROWID}
        a = {"op": "group", "by": rng.choice([["k"], ["j"], ["k", "j"]])}
        for op in ("aggregate", "count", "split", "gmodify"):
            records.append(execute(tw, a, pals, op, None))
            meta.append(pals)
            opcount["twin:" + op] = opcount.get("twin:" + op, 0) + 1
            ctx.count((repr(tw), repr(a["by"]), op, "twin"), True)
    # record -> validate: larger random frames (4..24 rows) so that size-dependent sort kernels are reached
    for _ in range(150 if quick else 1500):
        n = rng.randint(4, 24)
        fr = frames.random_frame(rng, n)
        a = {"op": "group", "by": rng.choice([["k"], ["j"], ["k", "j"], ["j", "k"]])}
        pals = frames.choose_palettes(rng, fr, ["k", "j"])
        pals["r"] = frames.ROWID
        for op in OPS:
            rec = execute(fr, a, pals, op, rng.choice(HELPERS) if op == "helper" else None)
            records.append(rec)
            meta.append(pals)
            opcount["big:" + op] = opcount.get("big:" + op, 0) + 1
            ctx.count((repr(fr), repr(a["by"]), op, "big"), True)
    bad = ctx.validate("GroupOpsTrace", records)
    for i, clause in bad:
        rec, pals = records[i], meta[i]
        ctx.fail(clause, sig_of(rec, pals),
                 {"rec": rec, "palettes": {c: p.name for c, p in pals.items()},
                  "concrete_in": frames.render_frame(rec["fr"], pals)})
    for i in range(0, len(records), max(1, len(records) // 5)):
        rec, pals = records[i], meta[i]
        ctx.sample({"abstract": rec, "palettes": {c: p.name for c, p in pals.items()},
                    "concrete_in": frames.render_frame(rec["fr"], pals)})
    ctx.extra["calls_per_op"] = opcount
    ctx.extra["frames"] = len(frs)
    ctx.exhaustive = not quick
    ctx.rule = ("frames (k, j, row id r) with <= %d rows over {NA} u %s x group-column tuples {k, j, (k,j), (j,k)} (TLC-enumerated; "
                "%s) x {aggregate with a row-id recording lambda, count, split, grouped modify with a recording lambda, "
                "shorthand helper vs lambda}; random palette pair per case. non-trivial = >= 2 rows with a tie or NA in a group column"
                % (maxrows, cells, "one random tuple per frame" if quick else "all tuples, 3 palette draws"))
    ctx.assumptions += ["helper-vs-lambda equality uses isclose(rel 1e-9) and is evaluated with USE_NUMBA = False (C08 owns the Numba path)",
                        "abstraction alpha trusts Python scalar ==, <, isnan, isnat"]


def run(ctx):
    _run_single(ctx)
    from props import c01
    c01.histories_for(ctx, "C04", 300 if ctx.tier == "quick" else 4000)


def replay(ctx, rp):
    for case in rp["cases"]:
        pals = {c: (frames.ROWID if n == "rowid" else gamma.BY_NAME[n]) for c, n in case["palettes"].items()}
        a = case["rec"]["a"]
        rec = execute(case["rec"]["fr"], a, pals, a["op"], a.get("helper"))
        bad = ctx.validate("GroupOpsTrace", [rec])
        for _, clause in bad:
            ctx.fail(clause, sig_of(rec, pals), {"rec": rec, "palettes": case["palettes"]})
        print("replayed", a, "->", [c for _, c in bad] or "accepted", rec["err"])
