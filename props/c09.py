"""C09 - combining and reshaping columns preserves every untouched value."""
import json

import numpy as np

from harness import gamma
from harness.gamma import NA
from props import frames
from props.c05 import FLOAT_OF_INT

NAMES = ["a", "b", "c", "x", "y"]
OPS = ["select", "unselect", "rename", "colnames", "modify", "cbind", "update"]
COL_PALETTES = [p for p in frames.KEY_PALETTES if p is not gamma.INT_BIG]   # columns may be NA-filled (int -> float)


LONG_STR = (gamma.STR_LONG, gamma.STR_MIXED)


def _pals_for(rng, fs, extra_cells, broadcast=()):
    """One palette per column name, able to represent every cell that name takes in any operand.
    Names in `broadcast` receive a length-one value that the library repeats: NumPy 2.0.2 (the pinned
    version) crashes the interpreter in ndarray.repeat on StringDType strings longer than 15 bytes,
    so long-string palettes are not used there (environment defect, see DESIGN.md)."""
    cells = {}
    for f in fs:
        for c in f["cols"]:
            cells.setdefault(c, []).extend(f["cell"][c])
    for c, v in extra_cells.items():
        cells.setdefault(c, []).extend(v)
    pals = {}
    for c, v in cells.items():
        if c == "r":
            pals[c] = frames.ROWID
        else:
            pals[c] = rng.choice([p for p in COL_PALETTES if p.supports(v)
                                  and not (c in broadcast and p in LONG_STR)])
    return pals


# Concrete column names (a name palette): the abstract names a, b, c, r, x, y are also run as names that contain one
# another ("id" in "listing_id"), are not identifiers ("hood id", "2nd", "x y"), are not ASCII, or clash with methods.
NAME_MAPS = [None,
             {"a": "id", "b": "listing_id", "c": "hood id", "r": "r", "x": "d", "y": "2nd"},
             {"a": "items", "b": "sort", "c": "x y", "r": "r", "x": "keys", "y": "\u00fc"}]


def _name_map_for(a, fs):
    import zlib
    return NAME_MAPS[zlib.crc32(json.dumps([a, fs], sort_keys=True, default=str).encode()) % len(NAME_MAPS)]


def _map_frame(fr, m):
    return {"cols": [m.get(c, c) for c in fr["cols"]], "cell": {m.get(c, c): v for c, v in fr["cell"].items()}}


def _map_arg(a, m):
    b = dict(a)
    if "names" in b:
        b["names"] = [m.get(c, c) for c in b["names"]]
    if "pairs" in b:
        b["pairs"] = [[m.get(to, to), m.get(fm, fm)] for to, fm in b["pairs"]]
    if "name" in b:
        b["name"] = m.get(b["name"], b["name"])
    for gk in ("g", "g2"):
        if gk in b:
            b[gk] = _map_frame(b[gk], m)
    return b


def named(fn, a, fs, pals, *rest):
    """Runs fn on the same case under the concrete column names chosen for it; the record stays abstract."""
    m = _name_map_for(a, fs)
    if not m:
        return fn(a, fs, pals, *rest)
    inv = {v: k for k, v in m.items()}
    rest = tuple(({m.get(c, c): p for c, p in r.items()} if isinstance(r, dict) else r) for r in rest)
    rec = fn(_map_arg(a, m), [_map_frame(f, m) for f in fs], {m.get(c, c): p for c, p in pals.items()}, *rest)
    rec["a"] = {k: v for k, v in a.items() if k not in ("g", "g2", "form", "shape")}
    rec["fs"] = fs
    rec["out"] = _map_frame(rec["out"], inv)
    rec["names"] = m
    return rec


def _build(f, pals, alt=None):
    import dataiter as di
    cols = {}
    for c in f["cols"]:
        p = pals[c]
        if alt and c in alt:
            p = alt[c]
        cols[c] = p.vector(f["cell"][c])
    return di.DataFrame(**cols)


def execute(a, fs, pals, variant=0):
    import dataiter as di
    rec = {"a": {k: v for k, v in a.items() if k not in ("g", "g2", "form", "shape")}, "fs": fs,
           "out": {"cols": [], "cell": {}}, "err": ""}
    try:
        op = a["op"]
        if op == "rbind":
            ds = []
            for i, f in enumerate(fs):
                alt = None
                if variant and i % 2 == 1:
                    alt = {c: FLOAT_OF_INT for c in f["cols"] if pals[c] is gamma.INT_SMALL}
                ds.append(_build(f, pals, alt))
            out = ds[0].rbind(*ds[1:])
        else:
            d = _build(fs[0], pals)
            if op == "select":
                out = d.select(*a["names"])
            elif op == "unselect":
                out = d.unselect(*a["names"])
            elif op == "rename":
                out = d.rename(**{to: fm for to, fm in a["pairs"]})
            elif op == "colnames":
                d.colnames = list(a["names"])
                out = d
            elif op in ("cbind", "update"):
                gs = [_build(g, pals) for g in fs[1:]]
                out = getattr(d, op)(*gs)
            elif op == "modify":
                col, name = a["col"], a["name"]
                n = d.nrow
                if len(col) == 1 and n != 1:
                    val = pals[name].value(col[0])          # a scalar, broadcast
                else:
                    val = pals[name].vector(col)
                arg = (lambda x: val) if a.get("form") == "callable" else val
                out = d.modify(**{name: arg})
        rec["out"] = frames.observe(out, pals)
    except Exception as e:
        rec["err"] = type(e).__name__ + ": " + str(e)[:100]
    return rec


def sig_of(rec, pals):
    a = rec["a"]
    n = len(rec["fs"][0]["cell"]["r"]) if rec["fs"] else 0
    s = {"op": a["op"], "nrow0": n == 0}
    if a["op"] == "colnames":
        s["permutes_existing"] = set(a["names"]) == set(rec["fs"][0]["cols"]) and a["names"] != rec["fs"][0]["cols"]
        s["reuses_existing_name"] = any(x in rec["fs"][0]["cols"] and rec["fs"][0]["cols"][i] != x
                                        for i, x in enumerate(a["names"]))
    if a["op"] == "rename":
        s["permutes_existing"] = any(to in rec["fs"][0]["cols"] for to, fm in a["pairs"])
    if a["op"] == "rbind":
        s["nframes"] = len(rec["fs"])
        s["zero_row_operand"] = any(len(f["cell"]["r"]) == 0 for f in rec["fs"])
    return s


def subframe(f, shape):
    cs = list(shape) + ["r"]
    return {"cols": cs, "cell": {c: f["cell"][c] for c in cs}}


def _run_single(ctx):
    quick = ctx.tier == "quick"
    rng = ctx.rng
    cells = [0, 2]
    r1 = ctx.model_check("CombineOpsMC", cfg_text=frames.mc_cfg(
        {"MaxRows": 2, "PosCells": cells, "Emit": True, "Which": "single"}), timeout=3000)
    r2 = ctx.model_check("CombineOpsMC", cfg_text=frames.mc_cfg(
        {"MaxRows": 1 if quick else 2, "PosCells": cells, "Emit": True, "Which": "rbind"}), timeout=3400, heap="12g")
    key = lambda x: json.dumps(x, sort_keys=True)
    uniq = lambda xs: sorted({key(x): x for x in xs}.values(), key=key)
    frs = uniq(j["fr"] for j in r1.json_lines if j.get("kind") == "frame")
    args = {}
    for j in r1.json_lines:
        if j.get("kind") == "arg":
            args.setdefault(j["n"], []).append(j["a"])
    args = {n: uniq(v) for n, v in args.items()}
    bases = uniq(j["fr"] for j in r2.json_lines if j.get("kind") == "frame")
    others = uniq(j["fr"] for j in r2.json_lines if j.get("kind") == "other")
    thirds = uniq(j["fr"] for j in r2.json_lines if j.get("kind") == "third")
    shapes = uniq(j["sh"] for j in r2.json_lines if j.get("kind") == "shape")
    records, meta, count = [], [], {}

    def add(a, fs, pals, variant=0):
        rec = named(execute, a, fs, pals, variant)
        records.append(rec)
        meta.append((pals, variant, a))
        count[a["op"]] = count.get(a["op"], 0) + 1
        n = len(fs[0]["cell"]["r"])
        ctx.count((key(a), key(fs), tuple(sorted((c, p.name) for c, p in pals.items())), variant),
                  n >= 1 and any(NA in f["cell"][c] for f in fs for c in f["cols"]))

    rot = 0
    for fr in frs:
        n = len(fr["cell"]["r"])
        cand = args[n]
        if not quick or n <= 1:
            chosen = cand
        else:
            op = OPS[rot % len(OPS)]
            rot += 1
            chosen = [rng.choice([a for a in cand if a["op"] == op])] + [rng.choice(cand) for _ in range(3)]
        for a in chosen:
            fs = [fr] + ([a["g"]] if "g" in a else []) + ([a["g2"]] if "g2" in a else [])
            extra = {a["name"]: a["col"]} if a["op"] == "modify" else {}
            if a["op"] == "colnames":
                extra = {}
            bc = ()
            if a["op"] == "modify" and len(a["col"]) == 1 and n != 1:
                bc = (a["name"],)
            for gk in ("g", "g2"):
                if gk in a:
                    lens = {c: len(a[gk]["cell"][c]) for c in a[gk]["cols"]}
                    if n != 1 or any(v != 1 for v in lens.values()):
                        bc = bc + tuple(c for c, v in lens.items() if v == 1)
            pals = _pals_for(rng, fs, extra, bc)
            if a["op"] in ("rename", "colnames"):
                # a renamed column keeps its values: the new name is read with the old column's palette
                if a["op"] == "rename":
                    for to, fm in a["pairs"]:
                        pals.setdefault("_new_" + to, pals[fm])
                else:
                    for i, to in enumerate(a["names"]):
                        pals.setdefault("_new_" + to, pals[fr["cols"][i]])
                newp = {k[5:]: v for k, v in pals.items() if k.startswith("_new_")}
                pals = {k: v for k, v in pals.items() if not k.startswith("_new_")}
                obs_pals = dict(pals)
                obs_pals.update(newp)
                rec = named(_execute_renamed, a, fs, pals, obs_pals)
                records.append(rec)
                meta.append((pals, 0, a))
                count[a["op"]] = count.get(a["op"], 0) + 1
                ctx.count((key(a), key(fs)), n >= 1)
                continue
            add(a, fs, pals)
    # rbind
    combos = []
    for b in bases:
        for sh in shapes:
            for o in others:
                combos.append((b, sh, o, None))
    if quick:
        combos = rng.sample(combos, min(len(combos), 3500))
    extra3 = [(rng.choice(bases), rng.choice(shapes), rng.choice(others), rng.choice(thirds))
              for _ in range(1500 if quick else 20000)]
    for b, sh, o, t in combos + extra3:
        fs = [subframe(b, sh), o] + ([t] if t else [])
        pals = _pals_for(rng, fs, {})
        add({"op": "rbind"}, fs, pals, variant=rng.randint(0, 1))
    bad = ctx.validate("CombineOpsTrace", records)
    for i, clause in bad:
        rec, (pals, variant, a) = records[i], meta[i]
        ctx.fail(clause, sig_of(rec, pals), {"rec": rec, "a": a, "variant": variant,
                                            "palettes": {c: p.name for c, p in pals.items()}})
    for i in range(0, len(records), max(1, len(records) // 6)):
        rec, (pals, variant, a) = records[i], meta[i]
        ctx.sample({"abstract": rec, "palettes": {c: p.name for c, p in pals.items()}})
    ctx.extra["calls_per_op"] = count
    ctx.exhaustive = not quick
    ctx.rule = ("base frames (a, b, c + row id, <= 2 rows, cells {NA} u %s) x every argument record of select (all orders), unselect, "
                "rename (all injective maps incl. permutations), colnames (all 4-name assignments incl. permutations), modify "
                "(scalar/vector/callable, new and existing names), cbind/update (clashing and new columns, broadcast) and rbind of "
                "2-3 frames with overlapping / disjoint / empty column sets - all enumerated by TLC (CombineOpsMC); %s; random "
                "palette per column name (int+float mixes for rbind). non-trivial = >= 1 row and an NA somewhere"
                % (cells, "seeded sample (all arguments for frames with <= 1 row)" if quick else "all single-frame cases, seeded rbind triples"))
    ctx.assumptions += ["column order after update/modify/cbind is a free point (only the relative order of untouched columns is judged)",
                        "integers >= 2**53 are not used in columns that may be NA-filled"]


def _execute_renamed(a, fs, pals, obs_pals):
    rec = {"a": {k: v for k, v in a.items()}, "fs": fs, "out": {"cols": [], "cell": {}}, "err": ""}
    try:
        d = _build(fs[0], pals)
        if a["op"] == "rename":
            out = d.rename(**{to: fm for to, fm in a["pairs"]})
        else:
            d.colnames = list(a["names"])
            out = d
        rec["out"] = frames.observe(out, obs_pals)
    except Exception as e:
        rec["err"] = type(e).__name__ + ": " + str(e)[:100]
    return rec


def run(ctx):
    _run_single(ctx)
    from props import c01
    c01.histories_for(ctx, "C09", 300 if ctx.tier == "quick" else 4000)


def replay(ctx, rp):
    for case in rp["cases"]:
        pals = {c: (frames.ROWID if n == "rowid" else gamma.BY_NAME[n]) for c, n in case["palettes"].items()}
        a, fs = case["a"], case["rec"]["fs"]
        if a["op"] in ("rename", "colnames"):
            obs = dict(pals)
            if a["op"] == "rename":
                obs.update({to: pals[fm] for to, fm in a["pairs"]})
            else:
                obs.update({to: pals[fs[0]["cols"][i]] for i, to in enumerate(a["names"])})
            rec = named(_execute_renamed, a, fs, pals, obs)
        else:
            rec = named(execute, a, fs, pals, case.get("variant", 0))
        bad = ctx.validate("CombineOpsTrace", [rec])
        for _, clause in bad:
            ctx.fail(clause, sig_of(rec, pals), {"rec": rec, "a": a, "palettes": case["palettes"]})
        print("replayed", a, "->", [c for _, c in bad] or "accepted", rec["err"])
