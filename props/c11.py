"""C11 - Vector.sort / rank / unique: total and mutually consistent.

TLC (VectorOpsMC) enumerates every abstract cell sequence in the bound and
model-checks the layer-1 operators; each sequence is concretised on every
palette, the six calls are executed on the real Vector, and the recorded
results are judged by VectorOpsTrace (monitor style)."""
import numpy as np

from harness import gamma
from harness.gamma import NA

PALETTES = [p for p in gamma.ALL]
CALLS = [("sort", 1, ""), ("sort", -1, ""), ("rank", 0, "min"), ("rank", 0, "max"),
         ("rank", 0, "ordinal"), ("unique", 0, "")]


def _cfg(maxlen, cells):
    return ("INIT Init\nNEXT Next\nINVARIANT Inv\nCONSTANTS\n  MaxLen = %d\n  PosCells = {%s}\n  Emit = TRUE\n"
            % (maxlen, ", ".join(map(str, cells))))


def execute(xs, pal, op, d, method):
    """One real call; returns the record shipped to the trace spec."""
    rec = {"xs": xs, "op": op, "dir": d, "method": method, "out": [], "err": ""}
    try:
        v = pal.vector(xs)
        if op == "sort":
            out = v.sort(dir=d)
            rec["out"] = pal.alpha_seq(out)
        elif op == "unique":
            out = v.unique()
            rec["out"] = pal.alpha_seq(out)
        else:
            out = v.rank(method=method)
            o = np.asarray(out)
            rec["out"] = [int(x) if float(x) == int(x) else gamma.ALIEN for x in o.tolist()] \
                if o.ndim == 1 else [gamma.ALIEN]
    except Exception as e:  # totality clause: judged by the spec
        rec["err"] = type(e).__name__ + ": " + str(e)[:80]
    return rec


def execute_after_write(xs, pal, op, d, method, i, c):
    """call, write element i := c in place, call again: the second result is judged against the edited vector"""
    rec = {"xs": list(xs), "op": op, "dir": d, "method": method, "out": [], "err": ""}
    try:
        v = pal.vector(xs)
        f = (lambda: v.sort(dir=d)) if op == "sort" else (lambda: v.unique()) if op == "unique" else (lambda: v.rank(method=method))
        f()
        v[i] = pal.value(c)
        rec["xs"] = pal.alpha_seq(np.asarray(v))            # what the vector holds now
        out = f()
        if op == "rank":
            o = np.asarray(out)
            rec["out"] = [int(x) if float(x) == int(x) else gamma.ALIEN for x in o.tolist()]
        else:
            rec["out"] = pal.alpha_seq(out)
    except Exception as e:
        rec["err"] = type(e).__name__ + ": " + str(e)[:80]
    return rec


def sig_of(rec, pal):
    xs = rec["xs"]
    return {"op": rec["op"], "arg": rec["method"] or rec["dir"], "kind": pal.kind, "palette": pal.name,
            "empty": len(xs) == 0, "all_na": len(xs) > 0 and all(c == NA for c in xs),
            "has_na": any(c == NA for c in xs)}


def run_cases(ctx, seqs, palettes):
    records, meta = [], []
    for xs in seqs:
        for pal in palettes:
            if not pal.supports(xs):
                ctx.skip("palette cannot represent the sequence (no NA / no twin / too few values)")
                continue
            for op, d, m in CALLS:
                rec = execute(xs, pal, op, d, m)
                records.append(rec)
                meta.append(pal)
                nontriv = len(xs) >= 2 and (NA in xs or len(set(c // 2 for c in xs)) < len(xs))
                ctx.count((tuple(xs), pal.name, op, d, m), nontriv)
    # multi-step: the same call before and after an in-place element write (memoised orderings must not survive it)
    rng = ctx.rng
    for xs in seqs:
        if len(xs) < 2:
            continue
        for pal in palettes:
            if not pal.supports(xs) or pal is gamma.STR_FIXED or rng.random() < 0.6:
                continue
            i = rng.randrange(len(xs))
            c = rng.choice([x for x in (0, 2, 4) if pal.supports([x])] or [0])
            if pal.kind == "int" and NA in xs:
                continue
            op, d, m = rng.choice(CALLS)
            records.append(execute_after_write(xs, pal, op, d, m, i, c))
            meta.append(pal)
            ctx.count((tuple(xs), pal.name, op, d, m, "after-write", i, c), True)
    bad = ctx.validate("VectorOpsTrace", records)
    for i, clause in bad:
        rec, pal = records[i], meta[i]
        case = {"rec": rec, "palette": pal.name,
                "concrete_in": [gamma.render(x) for x in pal.concrete(rec["xs"])]}
        ctx.fail(clause, sig_of(rec, pal), case)
    for i in range(0, len(records), max(1, len(records) // 5)):
        rec, pal = records[i], meta[i]
        ctx.sample({"abstract": rec, "palette": pal.name,
                    "concrete_in": [gamma.render(x) for x in pal.concrete(rec["xs"])]})
    return records


def run(ctx):
    if ctx.tier == "quick":
        maxlen, cells = 4, [0, 2, 3, 4]
    else:
        maxlen, cells = 5, [0, 2, 3, 4, 6]
    r = ctx.model_check("VectorOpsMC", cfg_text=_cfg(maxlen, cells), coverage=True)
    seqs = [j["xs"] for j in r.json_lines]
    seqs = sorted(set(map(tuple, seqs)))
    seqs = [list(s) for s in seqs]
    ctx.rule = ("every cell sequence of length <= %d over {NA} u %s (TLC-enumerated) x %d palettes x "
                "{sort +1/-1, rank min/max/ordinal, unique}; non-trivial = length >= 2 with a tie or an NA"
                % (maxlen, cells, len(PALETTES)))
    ctx.exhaustive = True
    ctx.extra["palettes"] = [p.name for p in PALETTES]
    ctx.extra["sequences"] = len(seqs)
    ctx.assumptions += ["Python scalar ==/< and math.isnan/np.isnat are the trusted base of the abstraction alpha",
                        "bounded: length and number of distinct values as stated in rule"]
    run_cases(ctx, seqs, PALETTES)
    from props import vmisc
    vmisc.run_section(ctx, seqs)


def replay(ctx, rp):
    for case in rp["cases"]:
        pal = gamma.BY_NAME[case["palette"]]
        rec0 = case["rec"]
        rec = execute(rec0["xs"], pal, rec0["op"], rec0["dir"], rec0["method"])
        bad = ctx.validate("VectorOpsTrace", [rec])
        for _, clause in bad:
            ctx.fail(clause, sig_of(rec, pal), {"rec": rec, "palette": pal.name})
        print("replayed", rec, "->", [c for _, c in bad] or "accepted")
