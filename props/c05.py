"""C05 - joins follow first-match relational semantics and never lose rows."""
import itertools

from harness import gamma
from harness.gamma import NA, Palette
from props import frames

KINDS = ["left", "inner", "semi", "anti", "full"]
FLOAT_OF_INT = Palette("float/of-int", "float", [-3.0, 0.0, 7.0, 9.0], na=float("nan"), full_dtype=float)
gamma.BY_NAME[FLOAT_OF_INT.name] = FLOAT_OF_INT
Y_PALETTES = [gamma.STR_SHORT, gamma.STR_LONG, gamma.FLOAT_INF, gamma.INT_SMALL, gamma.DATE, gamma.DATETIME,
              gamma.BOOL_OBJ, gamma.OBJ_INT, gamma.TIMEDELTA]


def ycell(i):  # mirrors JoinOpsMC!Ycell (1-based i)
    return NA if i == 2 else 2 * ((i - 1) % 3)


def lframe(l):
    n = len(l["k"])
    return {"cols": ["k", "j", "r"], "cell": {"k": l["k"], "j": l["j"], "r": [2 * i for i in range(n)]}}


def rframe(r, by):
    n = len(r["k"])
    cell = {"k": r["k"], "y": [ycell(i + 1) for i in range(n)], "rr": [2 * i for i in range(n)]}
    cols = ["k", "y", "rr"]
    if len(by) == 2:
        cell["j"] = r["j"]
        cols = ["k", "j", "y", "rr"]
    return {"cols": cols, "cell": cell}


def execute(L, R, a, pals):
    """pals: L-side palettes for k, j, r, y, rr plus 'Rk', 'Rj' for the right key columns."""
    import dataiter as di
    rec = {"L": L, "R": R, "a": a, "out": {"cols": [], "cell": {}}, "err": ""}
    try:
        dl = frames.build(L, pals)
        rn = {"k": "kk", "j": "jj"} if a["renamed"] else {"k": "k", "j": "j"}
        cols = {}
        for c in R["cols"]:
            p = pals["R" + c] if c in ("k", "j") else pals[c]
            cols[rn.get(c, c)] = p.vector(R["cell"][c])
        dr = di.DataFrame(**cols)
        by = [(c, rn[c]) if a["renamed"] else c for c in a["by"]]
        out = getattr(dl, a["kind"] + "_join")(dr, *by)
        rec["out"] = frames.observe(out, pals)
    except Exception as e:
        rec["err"] = type(e).__name__ + ": " + str(e)[:100]
    return rec


def sig_of(rec, pals):
    a = rec["a"]
    L, R = rec["L"], rec["R"]
    nl, nr = len(L["cell"]["k"]), len(R["cell"]["k"])
    return {"kind": a["kind"], "nby": len(a["by"]), "renamed": a["renamed"], "left_rows0": nl == 0, "right_rows0": nr == 0,
            "key_kinds": sorted(set(pals[c].kind for c in a["by"]) | set(pals["R" + c].kind for c in a["by"])),
            "y_kind": pals["y"].kind,
            "na_key_left": any(NA in L["cell"][c] for c in a["by"]),
            "na_key_right": any(NA in R["cell"][c] for c in a["by"])}


def choose(rng, L, R, by):
    pals = {"r": frames.ROWID, "rr": frames.ROWID}
    for c in ("k", "j"):
        cells = list(L["cell"][c]) + (list(R["cell"][c]) if c in R["cell"] else [])
        ok = [p for p in frames.KEY_PALETTES if p.supports(cells)]
        if c == "j" and len(by) == 1:
            # a left non-key column is NA-filled by full_join (int -> float): integers of magnitude
            # >= 2**53 cannot survive that in any NA-capable NumPy type, so they are not generated there
            ok = [p for p in ok if p is not gamma.INT_BIG]
        p = rng.choice(ok)
        pals[c] = p
        pals["R" + c] = p
        if p is gamma.INT_SMALL and rng.random() < 0.5:
            pals["R" + c] = FLOAT_OF_INT     # equal values, different dtypes on the two sides
    oky = [p for p in Y_PALETTES if p.supports(R["cell"]["y"])]
    pals["y"] = rng.choice(oky)
    return pals


def _run_single(ctx):
    quick = ctx.tier == "quick"
    if quick:
        consts, npairs = {"MaxL": 2, "MaxR": 3, "PosCells": [0, 2], "Emit": True}, 4000
    else:
        consts, npairs = {"MaxL": 3, "MaxR": 3, "PosCells": [0, 2, 3], "Emit": True}, 60000
    r = ctx.model_check("JoinOpsMC", cfg_text=frames.mc_cfg(consts), timeout=3400, heap="12g")
    def side(kind):
        ss = sorted({(tuple(j["k"]), tuple(j["j"])) for j in r.json_lines if j.get("kind") == kind})
        return [{"k": list(k), "j": list(j)} for k, j in ss]
    lefts, rights = side("L"), side("R")
    sides = rights
    rng = ctx.rng
    small = [s for s in rights if len(s["k"]) <= 1]
    pairs = list(itertools.product(small, small))         # every empty / single-row combination
    pairs += [(rng.choice(lefts), rng.choice(rights)) for _ in range(npairs)]
    # empty operands against every other operand
    empty = [s for s in rights if len(s["k"]) == 0]
    pairs += [(e, s) for e in empty for s in rights[:: max(1, len(rights) // 300)]]
    pairs += [(s, e) for e in empty for s in lefts[:: max(1, len(lefts) // 300)]]
    records, meta = [], []
    count = {}
    for l, rr in pairs:
        by = rng.choice([["k"], ["k", "j"]])
        renamed = rng.random() < 0.4
        L, R = lframe(l), rframe(rr, by)
        pals = choose(rng, L, R, by)
        for kind in KINDS:
            a = {"kind": kind, "by": by, "renamed": renamed}
            rec = execute(L, R, a, pals)
            records.append(rec)
            meta.append(pals)
            count[kind] = count.get(kind, 0) + 1
            nontriv = len(l["k"]) >= 1 and len(rr["k"]) >= 2 and (
                NA in l["k"] or NA in rr["k"] or len(set(rr["k"])) < len(rr["k"]))
            ctx.count((repr(l), repr(rr), repr(by), renamed, kind, pals["k"].name), nontriv)
    bad = ctx.validate("JoinOpsTrace", records)
    for i, clause in bad:
        rec, pals = records[i], meta[i]
        ctx.fail(clause, sig_of(rec, pals), {"rec": rec, "palettes": {c: p.name for c, p in pals.items()}})
    for i in range(0, len(records), max(1, len(records) // 5)):
        rec, pals = records[i], meta[i]
        ctx.sample({"abstract": rec, "palettes": {c: p.name for c, p in pals.items()},
                    "concrete_L": frames.render_frame(rec["L"], pals)})
    ctx.extra["calls_per_kind"] = count
    ctx.extra["operand_frames"] = len(sides)
    ctx.exhaustive = False
    ctx.rule = ("TLC (JoinOpsMC) enumerates every pair of operand frames (rows <= MaxL x MaxR, see tlc_runs) over key cells {NA} u %s and both key tuples, "
                "model-checking the join operators on the whole product (%d states); %d seeded pairs (plus every empty/single-row "
                "combination and empty-vs-everything) are executed with all five joins, random key tuple, same-name or renamed keys, "
                "random palettes (incl. int keys on one side and equal floats on the other); non-trivial = right side has >= 2 rows "
                "with a duplicate or NA key, or the left has an NA key" % (consts["PosCells"], r.states_generated, npairs))
    ctx.assumptions += ["abstraction alpha trusts Python scalar ==, <, isnan, isnat",
                        "non-key name clashes between the operands are a free point and are not generated",
                        "column order of join results is a free point (results compared as name -> cells maps)"]


def run(ctx):
    _run_single(ctx)
    from props import c01
    c01.histories_for(ctx, "C05", 300 if ctx.tier == "quick" else 4000)
    from props import compare
    compare.run_section(ctx)


def replay(ctx, rp):
    for case in rp["cases"]:
        pals = {c: (frames.ROWID if n == "rowid" else gamma.BY_NAME[n]) for c, n in case["palettes"].items()}
        rec0 = case["rec"]
        rec = execute(rec0["L"], rec0["R"], rec0["a"], pals)
        bad = ctx.validate("JoinOpsTrace", [rec])
        for _, clause in bad:
            ctx.fail(clause, sig_of(rec, pals), {"rec": rec, "palettes": case["palettes"]})
        print("replayed", rec0["a"], "->", [c for _, c in bad] or "accepted", rec["err"])
