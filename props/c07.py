"""C07 - aggregation helpers compute the documented statistic and NA policy (vector and group-wise form)."""
import datetime
import json
import math

import numpy as np

NAV = -99
S = 144
HELPERS = ["all", "any", "count", "count_unique", "first", "last", "nth", "min", "max", "mode", "mean", "median",
           "quantile", "std", "var", "sum"]
CELL_H = {"first", "last", "nth", "min", "max", "mode"}
ACCEPTS = {
    "bool": set(HELPERS), "int": set(HELPERS), "float": set(HELPERS),
    "date": {"count", "count_unique", "first", "last", "nth", "mode", "min", "max"},
    "str": {"count", "count_unique", "first", "last", "nth", "mode", "min", "max"},
}
KINDS = ["bool", "int", "float", "date", "str"]
BASE = datetime.date(2000, 1, 1)


def supports(kind, xs):
    if kind == "bool":
        return all(v in (0, 1) for v in xs)
    if kind == "int":
        return NAV not in xs
    return True


def concrete(kind, xs):
    import dataiter as di
    if kind == "bool":
        return di.Vector([bool(v) for v in xs], bool)
    if kind == "int":
        return di.Vector(list(xs), int)
    if kind == "float":
        return di.Vector([math.nan if v == NAV else v / 2 for v in xs], float)
    if kind == "date":
        return di.Vector([None if v == NAV else BASE + datetime.timedelta(days=v) for v in xs], "datetime64[D]")
    return di.Vector(["" if v == NAV else chr(ord("c") + v) for v in xs], str)


def is_missing(x):
    if x is None:
        return True
    if isinstance(x, (np.datetime64, np.timedelta64)):
        return bool(np.isnat(x))
    if isinstance(x, str):
        return x == ""
    return False


def norm(res, kind, h):
    """Concrete result -> the tagged abstract value the spec speaks about."""
    if isinstance(res, np.generic) and not isinstance(res, (np.datetime64, np.timedelta64)):
        res = res.item()
    if is_missing(res):
        return {"t": "na"}
    if isinstance(res, float) and math.isnan(res):
        return {"t": "nan"}
    if h in ("all", "any"):
        return {"t": "bool", "v": bool(res)} if isinstance(res, (bool, np.bool_)) else {"t": "alien"}
    if h in CELL_H:
        if kind == "date":
            d = res.astype("datetime64[D]").astype(object) if isinstance(res, np.datetime64) else res
            if isinstance(d, datetime.datetime):
                d = d.date()
            return {"t": "cell", "v": (d - BASE).days} if isinstance(d, datetime.date) else {"t": "alien"}
        if kind == "str":
            return {"t": "cell", "v": ord(res) - ord("c")} if isinstance(res, str) and len(res) == 1 else {"t": "alien"}
        v = float(res) * (2 if kind == "float" else 1)
        return {"t": "cell", "v": int(round(v))} if abs(v - round(v)) < 1e-9 else {"t": "alien"}
    try:
        v = float(res)
    except (TypeError, ValueError):
        return {"t": "alien"}
    if math.isinf(v):
        return {"t": "alien"}
    scale = 1.0
    if kind == "float" and h not in ("count", "count_unique"):
        scale = 0.25 if h == "var" else 0.5
    a = v / scale
    out = {"t": "num", "v": -123456, "sq": -123456}
    if abs(a * S - round(a * S)) < 1e-6 * max(1.0, abs(a * S)):
        out["v"] = int(round(a * S))
    if abs(a * a * S - round(a * a * S)) < 1e-6 * max(1.0, abs(a * a * S)):
        out["sq"] = int(round(a * a * S))
    return out


def kwargs_for(h, a):
    kw = {}
    if h not in ("all", "any"):
        kw["drop_na"] = a["dropna"]
    if h in ("std", "var"):
        kw["ddof"] = a["ddof"]
    return kw


def call_vector(di, h, a, v):
    f = getattr(di, h)
    kw = kwargs_for(h, a)
    if h == "nth":
        return f(v, a["idx"], **kw)
    if h == "quantile":
        return f(v, a["q4"] / 4, **kw)
    return f(v, **kw)


_HELPER_OBJECTS = {}


def helper_for_column(di, h, a):
    """The shorthand helper object for column x.  Objects are kept and reused across frames of different column
    types (a helper may be defined once and used on many frames): nothing may stick to the object between uses."""
    key = (h, a["dropna"], a["ddof"] if h in ("std", "var") else 0, a["idx"] if h == "nth" else 0, a["q4"] if h == "quantile" else 0)
    if key not in _HELPER_OBJECTS:
        _HELPER_OBJECTS[key] = _new_helper(di, h, a)
    return _HELPER_OBJECTS[key]


def _new_helper(di, h, a):
    f = getattr(di, h)
    kw = kwargs_for(h, a)
    if h == "nth":
        return f("x", a["idx"], **kw)
    if h == "quantile":
        return f("x", a["q4"] / 4, **kw)
    return f("x", **kw)


def rand_args(rng, h):
    from_default = {"count": False, "count_unique": False, "first": False, "last": False, "nth": False}
    a = {"dropna": rng.choice([True, False]), "ddof": rng.choice([0, 1, 2]), "idx": rng.randint(-3, 3), "q4": rng.randint(0, 4)}
    return a


def execute(h, a, kind, xs, form, other=None, before=None):
    """before = (h0, a0): another helper on the same column listed first in the same aggregate() call; what a helper
    returns is a function of its group's elements alone, whatever was computed before it in the call."""
    import dataiter as di
    recs = []
    old = di.USE_NUMBA
    di.USE_NUMBA = False
    try:
        if form == "vector":
            rec = {"h": h, "a": a, "kind": kind, "xs": xs, "form": form, "obs": {"t": "alien"}, "err": ""}
            try:
                rec["obs"] = norm(call_vector(di, h, a, concrete(kind, xs)), kind, h)
            except Exception as e:
                rec["err"] = type(e).__name__ + ": " + str(e)[:80]
            recs.append(rec)
        else:
            groups = [xs] + (other or [])
            rows = [(g, v) for g, grp in enumerate(groups) for v in grp]
            # interleave rows of different groups, keeping the order inside each group
            order = sorted(range(len(rows)), key=lambda i: (sum(1 for j in range(i) if rows[j][0] == rows[i][0]), rows[i][0]))
            rows = [rows[i] for i in order]
            base = [{"h": h, "a": a, "kind": kind, "xs": g, "form": form, "obs": {"t": "alien"}, "err": ""} for g in groups]
            if before:
                for rec in base:
                    rec["form"], rec["before"] = "group-after-" + before[0], list(before)
            try:
                d = di.DataFrame(g=di.Vector([r[0] for r in rows], int), x=concrete(kind, [r[1] for r in rows]))
                if before:
                    out = d.group_by("g").aggregate(w=helper_for_column(di, before[0], before[1]), y=helper_for_column(di, h, a))
                else:
                    out = d.group_by("g").aggregate(y=helper_for_column(di, h, a))
                gs = np.asarray(out["g"]).tolist()
                ys = out["y"]
                present = {}
                for i, g in enumerate(gs):
                    present[int(g)] = ys[i]
                for g, rec in enumerate(base):
                    if not groups[g]:
                        rec["form"] = "group-absent"      # an empty group does not exist in a frame
                        continue
                    if g in present:
                        rec["obs"] = norm(present[g], kind, h)
                    else:
                        rec["err"] = "group row missing from aggregate result"
            except Exception as e:
                for rec in base:
                    rec["err"] = type(e).__name__ + ": " + str(e)[:80]
            recs += [r for r in base if r["form"] != "group-absent"]
    finally:
        di.USE_NUMBA = old
    return recs


def sig_of(rec):
    xs = rec["xs"]
    return {"h": rec["h"], "kind": rec["kind"], "form": rec["form"], "dropna": rec["a"]["dropna"],
            "empty": len(xs) == 0, "all_na": len(xs) > 0 and all(v == NAV for v in xs), "has_na": NAV in xs}


def run(ctx):
    from props import frames
    quick = ctx.tier == "quick"
    maxlen, top = (3, 4) if quick else (4, 5)
    r = ctx.model_check("AggMC", cfg_text=frames.mc_cfg({"MaxLen": maxlen, "Top": top, "Emit": True}), timeout=3000)
    seqs = sorted({tuple(j["xs"]) for j in r.json_lines})
    rng = ctx.rng
    records = []
    count = {}
    combos = [(h, k) for k in KINDS for h in HELPERS if h in ACCEPTS[k]]
    per = 12 if quick else 100
    for xs in seqs:
        xs = list(xs)
        for _ in range(per):
            h, kind = rng.choice(combos)
            if not supports(kind, xs):
                ctx.skip("kind cannot represent the sequence")
                continue
            a = rand_args(rng, h)
            for form in ("vector", "group"):
                other = None
                if form == "group":
                    k = rng.randint(0, 2)
                    other = [list(rng.choice(seqs)) for _ in range(k)]
                    other = [o for o in other if supports(kind, o)]
                before = None
                if form == "group" and rng.random() < 0.35:
                    h0 = rng.choice([x for x in HELPERS if x in ACCEPTS[kind]])
                    before = (h0, rand_args(rng, h0))
                for rec in execute(h, a, kind, xs, form, other, before):
                    records.append(rec)
                    count[h] = count.get(h, 0) + 1
                    ctx.count((h, json.dumps(a, sort_keys=True), kind, tuple(rec["xs"]), form), len(rec["xs"]) >= 2)
    # two helpers in one aggregate() call on groups of four unsorted elements (long enough for in-place partitioning
    # or sorting by the first helper to move something): the second one is judged as if it were alone
    for _ in range(700 if quick else 30000):
        kind = rng.choice(KINDS)
        alphabet = [NAV] + list(range(-2, top - 1))
        xs = [rng.choice(alphabet) for _ in range(4)]
        if not supports(kind, xs):
            continue
        ok = [x for x in HELPERS if x in ACCEPTS[kind]]
        # half of the draws: a helper that sorts / partitions / selects first, a position-sensitive one second
        h = rng.choice([x for x in ok if x in ("first", "last", "nth", "mode")] if rng.random() < 0.5 else ok)
        h0 = rng.choice([x for x in ok if x in ("median", "quantile", "count_unique", "mode", "min", "max")] if rng.random() < 0.5 else ok)
        other = [[rng.choice(alphabet) for _ in range(rng.randint(1, 4))]]
        other = [o for o in other if supports(kind, o)]
        for rec in execute(h, rand_args(rng, h), kind, xs, "group", other, (h0, rand_args(rng, h0))):
            records.append(rec)
            count[h] = count.get(h, 0) + 1
            ctx.count((h, h0, kind, tuple(rec["xs"]), "after"), True)
    bad = ctx.validate("AggTrace", records)
    for i, clause in bad:
        ctx.fail(clause, sig_of(records[i]), {"rec": records[i]})
    for i in range(0, len(records), max(1, len(records) // 6)):
        ctx.sample(records[i])
    ctx.extra["calls_per_helper"] = count
    ctx.exhaustive = False
    ctx.rule = ("every element sequence of length <= %d over {NA} u -2..%d (TLC-enumerated, textbook cross-checks model-checked) x %d seeded "
                "(helper, kind, drop_na, ddof, index, q) draws per sequence x {vector form, group-wise form inside a frame with 1-3 interleaved "
                "groups}; USE_NUMBA = False. non-trivial = >= 2 elements" % (maxlen, top - 2, per))
    ctx.assumptions += ["float columns hold v/2: the observed statistic is rescaled by the affine equivariance of the true statistic",
                        "numeric results compared after rounding to a multiple of 1/144 with relative tolerance 1e-6 (no claim about ulps)",
                        "free: mode / count_unique with >= 2 missing values when drop_na=False; min/max/mode of strings with drop_na=False; all/any with missing values"]


def replay(ctx, rp):
    for case in rp["cases"]:
        r0 = case["rec"]
        recs = execute(r0["h"], r0["a"], r0["kind"], r0["xs"], "vector" if r0["form"] == "vector" else "group",
                       before=tuple(r0["before"]) if r0.get("before") else None)
        bad = ctx.validate("AggTrace", recs)
        for i, clause in bad:
            ctx.fail(clause, sig_of(recs[i]), {"rec": recs[i]})
        print("replayed", r0["h"], r0["a"], r0["kind"], r0["xs"], "->", [c for _, c in bad] or "accepted")
