"""C03 - DataFrame.sort is a stable, key-ordered permutation of whole rows."""
from props import c02


def run(ctx):
    c02.run_machine(ctx, "sort", ["sort"])
    from props import c01
    c01.histories_for(ctx, "C03", 300 if ctx.tier == "quick" else 4000)


def replay(ctx, rp):
    c02.replay(ctx, rp)
