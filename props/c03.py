"""C03 - DataFrame.sort is a stable, key-ordered permutation of whole rows."""
import numpy as np

from props import c02


def big_projections(ctx, nrows, ncases):
    """Frames far larger than anything TLC enumerates (size-dependent sort kernels): a frame of nrows rows is sorted by
    the library; a projection onto a few dozen rows is shipped to the same trace spec.  Sound: if the whole result is
    the stable key-ordered permutation of the input, so is its restriction to any subset of the rows."""
    import dataiter as di
    rng = ctx.rng
    records = []
    for _ in range(ncases):
        kvals = np.array([rng.randrange(3) for _ in range(nrows)])            # three key classes, heavy ties
        keykind = rng.choice(["int", "float", "str"])
        col = {"int": di.Vector(kvals, int), "float": di.Vector(kvals * 0.5, float),
               "str": di.Vector([("a", "b", "c")[v] for v in kvals], str)}[keykind]
        d = di.DataFrame(k=col, rid=np.arange(nrows))
        direction = rng.choice([1, -1])
        rec = {"fr": {"cols": ["k", "j", "r"], "cell": {"k": [], "j": [], "r": []}},
               "a": {"op": "sort", "keys": ["k"], "dirs": [direction]}, "out": {"cols": ["k", "j", "r"], "cell": {"k": [], "j": [], "r": []}}, "err": ""}
        try:
            out = d.sort(k=direction)
            # rows of the projection: mostly one key class (ties), positions spread over the whole frame
            cls = rng.randrange(3)
            pool = np.flatnonzero(kvals == cls)
            sel = sorted(set(rng.sample(list(pool), min(30, len(pool))) + rng.sample(range(nrows), 8)))
            pos = {int(r): i for i, r in enumerate(sel)}
            rec["fr"]["cell"] = {"k": [2 * int(kvals[r]) for r in sel], "j": [0] * len(sel), "r": [2 * i for i in range(len(sel))]}
            orid = np.asarray(out["rid"])
            okey = np.asarray(out["k"])
            keep = [i for i in range(nrows) if int(orid[i]) in pos]
            conc = {"int": lambda x: int(x), "float": lambda x: int(round(float(x) * 2)), "str": lambda x: "abc".index(str(x))}[keykind]
            rec["out"]["cell"] = {"k": [2 * conc(okey[i]) for i in keep], "j": [0] * len(keep), "r": [2 * pos[int(orid[i])] for i in keep]}
            rec["whole"] = {"nrow": nrows, "nrow_out": int(out.nrow), "key": keykind}
            if int(out.nrow) != nrows or sorted(orid.tolist()) != list(range(nrows)):
                rec["err"] = "result is not a permutation of the %d input rows" % nrows
        except Exception as e:
            rec["err"] = type(e).__name__ + ": " + str(e)[:80]
        records.append(rec)
    bad = ctx.validate("FrameOpsTrace", [{k: v for k, v in r.items() if k != "whole"} for r in records])
    for i, clause in bad:
        ctx.fail(clause, {"op": "sort", "large_frame": True, "key": records[i].get("whole", {}).get("key", "")}, {"rec": records[i]})
    ctx.extra["large_frames"] = {"rows": nrows, "cases": len(records)}


def run(ctx):
    c02.run_machine(ctx, "sort", ["sort"])
    from props import c01
    c01.histories_for(ctx, "C03", 300 if ctx.tier == "quick" else 4000)
    big_projections(ctx, 100003, 3 if ctx.tier == "quick" else 12)


def replay(ctx, rp):
    rest = [c for c in rp["cases"] if not c.get("rec", {}).get("whole")]
    if len(rest) < len(rp["cases"]):
        big_projections(ctx, 100003, 4)
    if rest:
        c02.replay(ctx, dict(rp, cases=rest))
