"""C03 - DataFrame.sort is a stable, key-ordered permutation of whole rows."""
from props import c02


def run(ctx):
    c02.run_machine(ctx, "sort", ["sort"])


def replay(ctx, rp):
    c02.replay(ctx, rp)
