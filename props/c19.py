"""C19 - dt and regex functions act element-wise like datetime and re."""
import datetime as dtm
import json
import math
import re

import numpy as np

EXTRACTORS = ["year", "month", "day", "hour", "minute", "second", "microsecond", "weekday", "isoweekday", "isoweek", "quarter"]
TIME_OF_DAY = {"hour", "minute", "second", "microsecond"}
YEARS = [1, 2, 4, 100, 400, 1582, 1583, 1899, 1900, 1901, 1969, 1970, 1999, 2000, 2001, 2004, 2009, 2010, 2015, 2016, 2020, 2021,
         2024, 2026, 2100, 9998]
TIMES = [(0, 0, 0, 0), (23, 59, 59, 999999), (12, 34, 56, 789)]
FORMATS = ["%Y-%m-%d", "%Y-%m-%dT%H:%M:%S", "%Y-%m-%d %H:%M:%S.%f", "%d.%m.%Y", "%Y%m%d%H%M%S"]
# the family includes empty-matching patterns and patterns whose first alternative / lazy match is shorter than the
# whole string (where fullmatch, match and search genuinely differ)
PATTERNS = [r"", r"a", r"a*", r"$", r"\b", r"(?i)x|", r"(\w)(\d+)", r"[^a-z]+", r"^", r"\s", r"(a)|(b)", r".", r"line\d$",
            r"a|ab", r"a*?", r"x??", r"[a-z]+?", r"(a|ab)(c|bcd)?", r"(?s).+?", r"\w+?\d"]
STRINGS = ["abc", "aXbXc", "a b\tc", "ÄäÖ", "x1y22z333", "line1\nline2", "aaa", "B", "ab", "x", "abcd", "a1"]


def edge_dates():
    out = []
    for y in YEARS:
        for (m, d) in [(1, 1), (1, 2), (1, 3), (1, 4), (1, 5), (1, 6), (1, 7), (12, 24), (12, 25), (12, 26), (12, 27), (12, 28),
                       (12, 29), (12, 30), (12, 31), (2, 27), (2, 28), (3, 1), (3, 31), (4, 1), (6, 30), (7, 1), (9, 30), (10, 1)]:
            out.append(dtm.date(y, m, d))
        try:
            out.append(dtm.date(y, 2, 29))
        except ValueError:
            pass
    out += [dtm.date(9999, 12, 31), dtm.date(9999, 1, 1)]
    return out


DATES = edge_dates()


def instant(rng, unit):
    d = rng.choice(DATES)
    if unit == "D":
        return d
    h, m, s, us = rng.choice(TIMES)
    if unit == "s":
        us = 0
    elif unit == "ms":
        us = (us // 1000) * 1000
    return dtm.datetime(d.year, d.month, d.day, h, m, s, us)


def dvector(elems, unit):
    import dataiter as di
    arr = np.array([np.datetime64("NaT") if e is None else np.datetime64(e) for e in elems], dtype="datetime64[%s]" % unit) \
        if elems else np.array([], dtype="datetime64[%s]" % unit)
    return di.Vector(arr)


def ref_extract(f, e):
    if f == "isoweek":
        return e.isocalendar()[1]
    if f == "quarter":
        return (e.month - 1) // 3 + 1
    if f in ("weekday", "isoweekday"):
        return getattr(e, f)()
    return getattr(e, f)


def abs_elem(e):
    if e is None:
        return {"na": True, "ord": 0, "sod": 0, "us": 0}
    if isinstance(e, dtm.datetime):
        return {"na": False, "ord": e.toordinal(), "sod": e.hour * 3600 + e.minute * 60 + e.second, "us": e.microsecond}
    return {"na": False, "ord": e.toordinal(), "sod": 0, "us": 0}


def miss(x, dtype_kind):
    """Missing by the representation that belongs to the result's dtype."""
    if dtype_kind == "O":
        return x is None
    if dtype_kind in ("f",):
        return isinstance(x, (float, np.floating)) and math.isnan(x)
    if dtype_kind in ("M", "m"):
        return bool(np.isnat(x))
    if dtype_kind in ("T", "U"):
        return x == ""
    return False


def arrays_same(a, b):
    a, b = np.asarray(a), np.asarray(b)
    if a.shape != b.shape or a.dtype.kind != b.dtype.kind:
        return False
    for x, y in zip(a.tolist() if a.dtype.kind != "M" else list(a), b.tolist() if b.dtype.kind != "M" else list(b)):
        if not same_val(x, y):
            return False
    return True


def same_val(x, y):
    if isinstance(x, re.Match) or isinstance(y, re.Match):
        return (isinstance(x, re.Match) and isinstance(y, re.Match) and x.span() == y.span()
                and x.group(0) == y.group(0) and x.groups() == y.groups())
    if isinstance(x, (float, np.floating)) and isinstance(y, (float, np.floating)) and math.isnan(x) and math.isnan(y):
        return True
    if isinstance(x, (np.datetime64,)) and isinstance(y, (np.datetime64,)):
        return bool((np.isnat(x) and np.isnat(y)) or x == y)
    try:
        return bool(x == y)
    except Exception:
        return False


def rec_base(k, f):
    return {"k": k, "f": f, "err": "", "proxy_eq": True, "scalar_eq": True, "xs": [], "out": [], "eq": [], "na": [], "out_na": [], "back_eq": []}


def call_then_write(rng, v, elems, unit):
    """History: some dt function is called on the vector, then an element is overwritten in place; what follows
    is judged on the vector as it is now (a function of the call's arguments alone)."""
    import dataiter as di
    if not elems or rng.random() >= 0.3:
        return False
    getattr(di.dt, rng.choice(["year", "day", "weekday"]))(v)
    getattr(v.dt, rng.choice(["month", "quarter"]))()
    j = rng.randrange(len(elems))
    new = None if rng.random() < 0.3 else instant(rng, unit)
    v[j] = np.datetime64("NaT") if new is None else np.datetime64(new, unit)
    elems[j] = new
    return True


def do_extract(rng, mask, f, unit):
    import dataiter as di
    elems = [None if m else instant(rng, unit) for m in mask]
    rec = rec_base("extract", f)
    rec["unit"] = unit
    try:
        v = dvector(elems, unit)
        rec["after_write"] = call_then_write(rng, v, elems, unit)
        rec["xs"] = [abs_elem(e) for e in elems]
        out = getattr(di.dt, f)(v)
        o = np.asarray(out)
        kind = o.dtype.kind
        res = []
        for i in range(o.shape[0]):
            x = o[i]
            if miss(x, kind) or (kind not in "fiu"):
                res.append({"na": bool(miss(x, kind)), "v": -1})
            else:
                res.append({"na": False, "v": int(x) if float(x) == int(x) else -1})
        rec["out"] = res
        rec["eq"] = [True if e is None else (not res[i]["na"] and res[i]["v"] == ref_extract(f, e)) for i, e in enumerate(elems)] \
            if len(res) == len(elems) else [False] * len(elems)
        rec["proxy_eq"] = arrays_same(getattr(v.dt, f)(), out)
        for i, e in enumerate(elems):
            if e is not None:
                s = getattr(di.dt, f)(np.datetime64(e, unit))
                rec["scalar_eq"] = same_val(s, o[i]) or (float(s) == float(o[i]))
                break
    except Exception as ex:
        rec["err"] = type(ex).__name__ + ": " + str(ex)[:80]
    return rec


def do_lift_dt(rng, mask, f, unit):
    """replace / to_string+from_string on datetime vectors."""
    import dataiter as di
    elems = [None if m else instant(rng, unit) for m in mask]
    n = len(elems)
    rec = rec_base("lift" if f == "replace" else "roundtrip", f)
    rec["na"] = [e is None for e in elems]
    try:
        v = dvector(elems, unit)
        rec["after_write"] = call_then_write(rng, v, elems, unit)
        rec["na"] = [e is None for e in elems]
        if f == "replace":
            kw = {}
            choice = rng.choice(["year", "month+dayvec", "dayvec", "time", "yearvec"])
            if choice == "year":
                kw = {"year": 2004}
            elif choice == "month+dayvec":
                kw = {"month": rng.randint(1, 12), "day": [rng.choice([1, 15, 28]) for _ in range(n)]}
            elif choice == "dayvec":
                kw = {"day": [rng.choice([1, 28]) for _ in range(n)]}
            elif choice == "yearvec":
                kw = {"year": [rng.choice([2000, 2024]) for _ in range(n)]}
            else:
                if unit == "D":
                    kw = {"day": 1}
                else:
                    kw = {"hour": 7, "minute": [rng.randint(0, 59) for _ in range(n)], "second": 5}
            out = di.dt.replace(v, **kw)
            o = np.asarray(out)
            rec["out_na"] = [bool(np.isnat(x)) for x in o] if o.dtype.kind == "M" else [False] * len(o)
            eq = []
            for i, e in enumerate(elems):
                if e is None:
                    eq.append(True)
                    continue
                kwi = {k: (val[i] if isinstance(val, list) else val) for k, val in kw.items()}
                ref = e.replace(**kwi)
                eq.append(i < len(o) and o.dtype.kind == "M" and bool(o[i] == np.datetime64(ref)))
            rec["eq"] = eq
            rec["proxy_eq"] = arrays_same(v.dt.replace(**kw), out)
            if n and elems[0] is not None and all(not isinstance(val, list) for val in kw.values()):
                rec["scalar_eq"] = bool(di.dt.replace(np.datetime64(elems[0], unit), **kw) == o[0])
        else:
            fmt = rng.choice(FORMATS)
            rec["fmt"] = fmt
            out = di.dt.to_string(v, fmt)
            o = np.asarray(out)
            kind = o.dtype.kind
            rec["out_na"] = [bool(miss(x, kind)) for x in o.tolist()]
            rec["eq"] = [True if e is None else (i < len(o) and o[i] == e.strftime(fmt)) for i, e in enumerate(elems)]
            rec["proxy_eq"] = arrays_same(v.dt.to_string(fmt), out)
            for i, e in enumerate(elems):
                if e is not None:
                    rec["scalar_eq"] = di.dt.to_string(np.datetime64(e, unit), fmt) == e.strftime(fmt)
                    break
            # from_string inverts to_string (years >= 1000: %Y is unambiguous there; the format must carry what the unit holds)
            lossless = (unit == "D") or (unit == "s" and "%S" in fmt) or ("%f" in fmt)
            if lossless and all(e is None or e.year >= 1000 for e in elems) and kind in ("T",):
                back = np.asarray(di.dt.from_string(out, fmt))
                rec["back_eq"] = [True if e is None else bool(back[i] == np.datetime64(e)) for i, e in enumerate(elems)]
                if [bool(np.isnat(x)) for x in back] != rec["na"]:
                    rec["back_eq"] = [False] * n
            else:
                rec["back_eq"] = [True] * n
    except Exception as ex:
        rec["err"] = type(ex).__name__ + ": " + str(ex)[:80]
    return rec


def do_regex(rng, mask, f):
    import dataiter as di
    strs = ["" if m else rng.choice(STRINGS) for m in mask]
    pat = rng.choice(PATTERNS)
    rec = rec_base("lift", "regex." + f)
    rec["na"] = list(mask)
    rec["pattern"], rec["strings"] = pat, strs
    try:
        v = di.Vector(strs, str)
        fn, rfn = getattr(di.regex, f), getattr(re, f)
        if strs and rng.random() < 0.3:
            # history: a call, an in-place write, then the judged call on the vector as it is now
            di.regex.search(pat, v)
            v.re.findall(pat)
            j = rng.randrange(len(strs))
            mask = list(mask)
            mask[j] = rng.random() < 0.3
            strs[j] = "" if mask[j] else rng.choice(STRINGS)
            v[j] = strs[j]
            rec["na"], rec["after_write"] = list(mask), True
        extra, pos = {}, ()
        if f in ("sub", "subn"):
            pos = (rng.choice(["_", r"<\g<0>>", ""]),)
            if rng.random() < 0.5:
                extra["count"] = rng.randint(0, 2)
        if f == "split" and rng.random() < 0.5:
            extra["maxsplit"] = rng.randint(0, 2)
        if rng.random() < 0.3:
            extra["flags"] = re.IGNORECASE
        out = fn(pat, *pos, v, **extra)
        o = np.asarray(out)
        kind = o.dtype.kind
        refs = [None if m else rfn(pat, *pos, s, **extra) for m, s in zip(mask, strs)]
        vals = o.tolist()
        out_na, eq = [], []
        for i, m in enumerate(mask):
            x = vals[i] if i < len(vals) else "LEN"
            if not m and f == "sub" and refs[i] == "":
                out_na.append(False)        # "" is both a legitimate result and the string missing value: indistinguishable
                eq.append(x == "")
                continue
            if not m and refs[i] is None:
                out_na.append(False)        # "no match" is None for the search functions: equal to the reference
                eq.append(x is None)
                continue
            out_na.append(bool(miss(x, kind)))
            eq.append(True if m else same_val(x, refs[i]))
        rec["out_na"], rec["eq"] = out_na, eq
        if len(vals) != len(mask):
            rec["out_na"] = rec["out_na"] + [False]
        p = getattr(v.re, f)(pat, *pos, **extra)
        rec["proxy_eq"] = len(p) == len(out) and all(same_val(a, b) for a, b in zip(np.asarray(p).tolist(), vals))
        for i, m in enumerate(mask):
            if not m:
                rec["scalar_eq"] = same_val(fn(pat, *pos, strs[i], **extra), refs[i])
                break
    except Exception as ex:
        rec["err"] = type(ex).__name__ + ": " + str(ex)[:80]
    return rec


def do_strproxy(rng, mask):
    import dataiter as di
    strs = ["" if m else rng.choice(STRINGS) for m in mask]
    name, args = rng.choice([("upper", ()), ("lower", ()), ("str_len", ()), ("startswith", ("a",)), ("replace", ("a", "b")),
                             ("strip", ()), ("find", ("b",)), ("isdigit", ())])
    rec = rec_base("lift", "str." + name)
    rec["na"] = [False] * len(mask)
    try:
        v = di.Vector(strs, str)
        a = getattr(v.str, name)(*args)
        b = getattr(np.strings, name)(v, *args)
        rec["out_na"] = [False] * len(np.asarray(a))
        rec["eq"] = [True] * len(mask)
        rec["proxy_eq"] = arrays_same(a, b) and type(a).__name__ == "Vector"
    except Exception as ex:
        rec["err"] = type(ex).__name__ + ": " + str(ex)[:80]
    return rec


def sig_of(rec):
    return {"after_in_place_write": bool(rec.get("after_write")), "f": rec["f"], "k": rec["k"], "unit": rec.get("unit", ""), "all_missing": bool(rec.get("na")) and all(rec["na"]) if rec["k"] != "extract"
            else bool(rec["xs"]) and all(x["na"] for x in rec["xs"]), "empty": len(rec.get("na") or rec.get("xs") or []) == 0}


def run(ctx):
    from props import frames
    quick = ctx.tier == "quick"
    years = "{1, 2, 3, 4, 100, 400, 1582, 1583, 1600, 1899, 1900, 1901, 1969, 1970, 1999, 2000, 2001, 2015, 2019, 2020, 2021, 2024, 2026, 2100, 9998}"
    if not quick:
        years = "{" + ", ".join(str(y) for y in range(1, 2401)) + "}"       # (a cfg file cannot hold the interval 1..2400)
    ctx.model_check("CalendarMC", cfg_text="INIT Init\nNEXT Next\nINVARIANT Inv\nCONSTANTS\n  Years = %s\n" % years, timeout=3400)
    r = ctx.model_check("LiftMC", cfg_text=frames.mc_cfg({"MaxLen": 2 if quick else 3, "Emit": True}), timeout=3000)
    masks = sorted({tuple(j["mask"]) for j in r.json_lines if "mask" in j})
    masks += [(False, False, False), (True, False, True), (False, True, False), (True, True, True), (False, False, True, False)]
    masks = sorted(set(masks))
    rng = ctx.rng
    records = []
    reps = 6 if quick else 150
    for mask in masks:
        mask = list(mask)
        for _ in range(reps):
            for f in EXTRACTORS:
                unit = rng.choice(["s", "ms", "us"] if f in TIME_OF_DAY else ["D", "s", "ms", "us"])
                records.append(do_extract(rng, mask, f, unit))
            for f in ("replace", "to_string"):
                records.append(do_lift_dt(rng, mask, f, rng.choice(["D", "s", "ms", "us"])))
            for f in ("findall", "fullmatch", "match", "search", "split", "sub", "subn"):
                records.append(do_regex(rng, mask, f))
            records.append(do_strproxy(rng, mask))
    # every edge date once through every extractor (one long vector per unit)
    for unit in ("D", "us"):
        for f in EXTRACTORS:
            if f in TIME_OF_DAY and unit == "D":
                continue
            import dataiter as di
            elems = [dtm.datetime(d.year, d.month, d.day, 23, 59, 59, 999999) if unit == "us" else d for d in DATES]
            rec = rec_base("extract", f)
            rec["unit"] = unit
            rec["xs"] = [abs_elem(e) for e in elems]
            try:
                o = np.asarray(getattr(di.dt, f)(dvector(elems, unit)))
                rec["out"] = [{"na": False, "v": int(x)} for x in o.tolist()]
                rec["eq"] = [int(x) == ref_extract(f, e) for x, e in zip(o.tolist(), elems)]
            except Exception as ex:
                rec["err"] = type(ex).__name__ + ": " + str(ex)[:80]
            records.append(rec)
    for rec in records:
        ctx.count(json.dumps({k: v for k, v in rec.items() if k in ("f", "xs", "na", "pattern", "strings", "fmt", "unit")}, sort_keys=True, default=str),
                  len(rec.get("na") or rec.get("xs") or []) >= 2)
    slim = [{k: v for k, v in rec.items() if k in ("k", "f", "err", "proxy_eq", "scalar_eq", "xs", "out", "eq", "na", "out_na", "back_eq")} for rec in records]
    bad = ctx.validate("LiftTrace", slim)
    for i, clause in bad:
        ctx.fail(clause, sig_of(records[i]), {"rec": records[i]})
    for i in range(0, len(records), max(1, len(records) // 6)):
        ctx.sample({k: v for k, v in records[i].items() if k != "xs" or len(v) < 6})
    ctx.exhaustive = False
    ctx.rule = ("Calendar.tla laws model-checked over %s; LiftMC enumerates every missing-value mask of length <= %d; per mask %d seeded "
                "rounds x {11 extractors, replace (scalar and vector components), to_string/from_string over 5 formats, 7 re functions "
                "over 12 patterns incl. empty-matching ones, 8 str-proxy functions} on units D/s/ms/us with elements from an edge-date "
                "palette (%d dates: year ends, leap days, quarter boundaries, years 1..9999); plus every edge date through every extractor. "
                "Extractor values are judged against Calendar.tla AND Python's datetime; non-trivial = >= 2 elements"
                % ("25 boundary years (9131 days)" if quick else "every day of years 1..2400", 2 if quick else 3, reps, len(DATES)))
    ctx.assumptions += ["re and strftime/strptime semantics are Python's own (the property's reference); the executor only reports element equality",
                        "an empty string returned by sub() is indistinguishable from the string missing value (free point)",
                        "from_string(to_string(x)) judged for years >= 1000 and formats that carry the unit's resolution"]


def replay(ctx, rp):
    import random
    for case in rp["cases"]:
        r0 = case["rec"]
        rng = random.Random(0)
        mask = r0.get("na") or [x["na"] for x in r0.get("xs", [])]
        f = r0["f"]
        recs = []
        for _ in range(30):
            if r0["k"] == "extract":
                recs.append(do_extract(rng, mask, f, r0.get("unit") or "us"))
            elif f.startswith("regex."):
                recs.append(do_regex(rng, mask, f[6:]))
            elif f.startswith("str."):
                recs.append(do_strproxy(rng, mask))
            else:
                recs.append(do_lift_dt(rng, mask, f, rng.choice(["D", "s", "ms", "us"])))
        slim = [{k: v for k, v in rec.items() if k in ("k", "f", "err", "proxy_eq", "scalar_eq", "xs", "out", "eq", "na", "out_na", "back_eq")} for rec in recs]
        bad = ctx.validate("LiftTrace", slim)
        for i, clause in bad:
            ctx.fail(clause, sig_of(recs[i]), {"rec": recs[i]})
        print("replayed", f, mask, "x30 ->", sorted({c for _, c in bad}) or "accepted")
