"""C10 - vector construction and the missing-value model are coherent."""
import datetime
import json
import math

import numpy as np

TAGS = ["None", "nan", "pybool", "pyint", "pyfloat", "str", "str_empty", "date", "datetime", "timedelta", "bytes", "obj",
        "np_bool", "np_int", "np_float", "np_dt64", "np_nat", "np_str", "np_td64"]


class Obj:
    def __init__(self, n):
        self.n = n

    def __eq__(self, o):
        return isinstance(o, Obj) and o.n == self.n

    def __hash__(self):
        return hash(("Obj", self.n))

    def __repr__(self):
        return "Obj(%d)" % self.n


PAYLOAD = {
    "None": [None, None], "nan": [float("nan"), float("nan")], "pybool": [True, False], "pyint": [1, 2**53 - 1],
    "pyfloat": [0.5, -math.inf], "str": ["a", "é" * 60], "str_empty": ["", ""],
    "date": [datetime.date(2020, 1, 2), datetime.date(1, 1, 1)],
    "datetime": [datetime.datetime(2020, 1, 2, 3, 4, 5), datetime.datetime(1969, 12, 31, 23, 59, 59, 999999)],
    "timedelta": [datetime.timedelta(days=1), datetime.timedelta(seconds=-5)], "bytes": [b"a", b"bc"],
    "obj": [Obj(1), Obj(2)], "np_bool": [np.True_, np.False_], "np_int": [np.int64(3), np.int64(-4)],
    "np_float": [np.float64(1.5), np.float64(2.5)], "np_dt64": [np.datetime64("2020-01-02"), np.datetime64("2021-03-04T05:06:07")],
    "np_nat": [np.datetime64("NaT"), np.datetime64("NaT")], "np_str": [np.str_("x"), np.str_("yy")], "np_td64": [np.timedelta64(1, "D"), np.timedelta64(90, "s")],
}
DTYPES = {"": None, "bool": bool, "int": int, "float": float, "str": str, "object": object,
          "date": "datetime64[D]", "datetime": "datetime64[us]"}


def values_for(tags, variant):
    return [PAYLOAD[t][(i + variant) % 2] for i, t in enumerate(tags)]


def is_missing_rep(x):
    if x is None:
        return "none"
    if isinstance(x, (float, np.floating)) and math.isnan(x):
        return "nan"
    if isinstance(x, (np.datetime64, np.timedelta64)) and np.isnat(x):
        return "nat"
    if isinstance(x, str) and x == "":
        return "empty"
    return ""


def eqv(a, b):
    try:
        if isinstance(a, (datetime.date, datetime.datetime, np.datetime64)) or isinstance(b, (datetime.date, datetime.datetime, np.datetime64)):
            return np.datetime64(a, "us") == np.datetime64(b, "us")
        r = a == b
        return bool(r)
    except Exception:
        return False


def numpy_accepts(vals, dtype):
    """Whether NumPy itself can build an array of this dtype from the non-missing values (inputs it rejects are not claims)."""
    if dtype is None:
        return True
    good = [v for v in vals if not is_missing_rep(v) or (isinstance(v, str))]
    try:
        import dataiter as di
        np.array(good, di.Vector._map_input_dtype(dtype))
        return True
    except Exception:
        return False


def execute(tags, dt, variant, as_array=False):
    import dataiter as di
    vals = values_for(tags, variant)
    rec = {"k": "ctor", "tags": tags, "dt": dt, "err": "", "unsupported": False, "ndim": 1, "len": len(tags), "isna": [],
           "tolist_none": [], "tolist_eq": [], "narep": "", "rebuild_equal": True, "na_holds": True, "dropna_len": 0,
           "dropna_clean": True, "replace_ok": True, "self_equal": True, "isstr": False}
    dtype = DTYPES[dt]
    if not numpy_accepts(vals, dtype):
        rec["unsupported"] = True
        return rec, None
    try:
        v = di.Vector(vals, dtype)
    except Exception as e:
        rec["err"] = type(e).__name__ + ": " + str(e)[:80]
        return rec, None
    try:
        rec["ndim"], rec["len"] = int(v.ndim), int(v.shape[0]) if v.ndim >= 1 else -1
        rec["isstr"] = bool(v.is_string()) or bool(np.issubdtype(v.dtype, np.str_))
        na = np.asarray(v.is_na()).tolist()
        rec["isna"] = [bool(x) for x in na]
        tl = v.tolist()
        rec["tolist_none"] = [x is None for x in tl]
        rec["tolist_eq"] = [eqv(x, o) for x, o in zip(tl, vals)]
        reps = {is_missing_rep(np.asarray(v)[i]) for i in range(len(tags)) if rec["isna"][i]}
        rec["narep"] = reps.pop() if len(reps) == 1 else ("" if not reps else "mixed")
        rec["self_equal"] = bool(v.equal(v))
        rb = di.Vector(tl, v.dtype)
        rec["rebuild_equal"] = bool(rb.equal(v)) and bool(v.equal(rb))
        if len(tags) > 0:
            w = v.astype(v.na_dtype).copy()
            w[0] = v.na_value
            w = w.view(di.Vector)
            # ... as missing, the cast keeping every other element what it was
            rec["na_holds"] = bool(np.asarray(w.is_na())[0]) and all(
                (a is None and b is None) or eqv(a, b) for a, b in zip(w.tolist()[1:], tl[1:]))
        d = v.drop_na()
        rec["dropna_len"] = int(d.shape[0])
        rec["dropna_clean"] = not bool(np.asarray(d.is_na()).any()) and [eqv(a, b) for a, b in zip(d.tolist(), [x for x, m in zip(tl, na) if not m])].count(False) == 0
        if any(na) and not all(na):
            fill = [x for x, m in zip(np.asarray(v), na) if not m][0]
            rp = v.replace_na(fill)
            rl = rp.tolist()
            rec["replace_ok"] = (not bool(np.asarray(rp.is_na()).any())) and all(
                eqv(a, b) for a, b, m in zip(rl, tl, na) if not m) and all(eqv(a, rl[na.index(False)]) for a, m in zip(rl, na) if m)
    except Exception as e:
        rec["err"] = "after construction: " + type(e).__name__ + ": " + str(e)[:80]
    return rec, v


def sig_of(rec):
    tags = rec.get("tags", [])
    return {"dt": rec.get("dt", ""), "tagset": sorted(set(tags)), "has_missing": any(t in ("None", "nan", "np_nat") for t in tags)}


def run(ctx):
    from props import frames
    quick = ctx.tier == "quick"
    maxlen = 2 if quick else 3
    cfg = ('INIT Init\nNEXT Next\nINVARIANT Inv\nCONSTANTS\n MaxLen = %d\n Emit = TRUE\n Tags = {%s}\n'
           % (3, ", ".join('"%s"' % t for t in TAGS)))
    r = ctx.model_check("VectorCtorMC", cfg_text=cfg, timeout=3000)
    seqs = sorted({tuple(j["tags"]) for j in r.json_lines})
    rng = ctx.rng
    if quick:
        short = [s for s in seqs if len(s) <= 2]
        long = [s for s in seqs if len(s) == 3]
        seqs = short + rng.sample(long, 1500)
    records = []
    pool = []
    for tags in seqs:
        tags = list(tags)
        dts = [""] + ([rng.choice(list(DTYPES)[1:])] if quick else list(DTYPES)[1:])
        for dt in dts:
          for variant in (0, 1):          # both payload orders: the first element must not decide width / unit / type
            rec, v = execute(tags, dt, variant)
            records.append(rec)
            ctx.count((tuple(tags), dt), len(tags) >= 2 and len(set(tags)) >= 2)
            if v is not None and rec["err"] == "" and "np_nat" not in tags and "np_td64" not in tags and len(pool) < (150 if quick else 600) and rng.random() < 0.1:
                pool.append((tuple(tags), dt, v))
    # equal as an equivalence relation over a pool of real vectors (each vector once more rebuilt from the same input)
    import dataiter as di
    extra = []
    for tags, dt, v in pool[:40]:
        rec, w = execute(list(tags), dt, 0)
        if w is not None:
            extra.append((tags, dt, w))
    pool = pool + extra
    for off in range(0, len(pool), 12):
        part = pool[off:off + 12]
        if len(part) < 2:
            continue
        m = [[bool(a[2].equal(b[2])) for b in part] for a in part]
        same = [[False for b in part] for a in part]
        records.append({"k": "eq", "m": m, "sameinput": same, "inputs": [[list(a[0]), a[1]] for a in part]})
    bad = ctx.validate("VectorCtorTrace", records)
    for i, clause in bad:
        ctx.fail(clause, sig_of(records[i]), {"rec": records[i]})
    for i in range(0, len(records), max(1, len(records) // 6)):
        ctx.sample(records[i])
    ctx.exhaustive = not quick
    ctx.rule = ("every tag sequence of length <= 3 over 18 tags (None, NaN, Python and NumPy scalars of every kind, empty string, NaT) "
                "enumerated by TLC (VectorCtorMC); %s x {no dtype, explicit dtypes}; two concrete payloads per tag; plus equal() "
                "matrices over pools of the built vectors. non-trivial = >= 2 elements of different tags"
                % ("all of length <= 2 and 1500 seeded of length 3" if quick else "all"))
    ctx.assumptions += ["dtype / value combinations that NumPy itself rejects are executed but not judged",
                        "tolist must return the originals only for value-preserving inputs (homogeneous, number mixes, date-likes of one resolution)"]


def replay(ctx, rp):
    for case in rp["cases"]:
        r0 = case["rec"]
        if r0.get("k") != "ctor":
            continue
        rec, _ = execute(r0["tags"], r0["dt"], 0)
        rec2, _ = execute(r0["tags"], r0["dt"], 1)
        bad = ctx.validate("VectorCtorTrace", [rec, rec2])
        for i, clause in bad:
            ctx.fail(clause, sig_of(rec), {"rec": [rec, rec2][i]})
        print("replayed", r0["tags"], r0["dt"], "->", [c for _, c in bad] or "accepted")
