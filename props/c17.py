"""C17 - ListOfDicts shared-dict discipline: isolation and obsolescence."""
import contextlib
import io
import json

from props.c15 import to_abs, to_py, call as call15, UNSET

WARNING = "Warning: A successor has modified the shared dicts"

UNARY = (
    [{"op": "filter", "p": p} for p in ({"f": "a_eq", "v": 0}, {"f": "a_eq", "v": -1}, {"f": "b_notnone"}, {"f": "b_value"}, {"f": "true"}, {"f": "false"})] +
    [{"op": "filter_out", "p": p} for p in ({"f": "a_eq", "v": 1}, {"f": "b_notnone"})] +
    [{"op": "filter_kv", "kv": [["a", 0]]}, {"op": "filter_out_kv", "kv": [["a", 1]]}] +
    [{"op": "sort", "keys": ["a"], "dirs": [d]} for d in (1, -1)] +
    [{"op": "unique", "keys": ["a"]}] +
    [{"op": "head", "n": n} for n in (0, 1, 2)] + [{"op": "tail", "n": n} for n in (0, 1, 2)] +
    [{"op": "slice", "lo": 1, "hi": UNSET, "step": 1}, {"op": "slice", "lo": UNSET, "hi": -1, "step": 1},
     {"op": "slice", "lo": UNSET, "hi": UNSET, "step": -1}] +
    [{"op": "copy"}, {"op": "reverse"}, {"op": "mul", "n": 2}, {"op": "mul", "n": 1}, {"op": "drop_na", "keys": ["b"]},
     {"op": "sample", "n": 1}, {"op": "sample", "n": 2}, {"op": "sample", "n": 5}] +
    [{"op": "append", "item": {"a": 1, "b": 0}}, {"op": "insert", "i": 0, "item": {"a": -1, "b": 0}},
     {"op": "insert", "i": 5, "item": {"a": 0}}] +
    [{"op": "deepcopy"}] * 3 + [{"op": "keys"}] * 3 + [{"op": "pluck", "k": "b"}, {"op": "pluck", "k": "x"}] +
    [{"op": "fill_all"}, {"op": "fill", "kv": [["b", 0]]}, {"op": "fill", "kv": [["x", -1]]},
     {"op": "select", "keys": ["a"]}, {"op": "select", "keys": ["a", "b"]}, {"op": "unselect", "keys": ["b"]},
     {"op": "rename", "pairs": [["x", "b"]]}, {"op": "rename", "pairs": [["aa", "a"]]}, {"op": "rename", "pairs": [["aa", "a"]]}] +
    [{"op": "modify", "k": k, "g": g} for k in ("b", "x") for g in ({"f": "const", "v": 1}, {"f": "from", "k": "a"}, {"f": "const", "v": -1})] +
    [{"op": "modify_if", "p": p, "k": "b", "g": {"f": "const", "v": 0}} for p in ({"f": "a_eq", "v": 0}, {"f": "b_notnone"})]
)
BINARY = ["extend", "add", "semi", "anti", "inner", "left"]
READERS = {"keys", "pluck"}
CHAINABLE = {"filter", "filter_out", "filter_kv", "filter_out_kv", "sort", "unique", "head", "tail", "slice", "copy", "reverse",
             "drop_na", "append", "insert", "mul"}
EDITORS = {"modify", "modify_if", "fill", "fill_all", "unselect", "select", "rename", "inner", "left"}


def nest(d, how=True):
    """Concretisation with containers: a non-missing value v of key b is held as {"n": [v]} (a dict holding a list),
    or - how == "tuple" - as ({"n": [v]},): an immutable tuple that holds a mutable object."""
    wrap = (lambda v: ({"n": [v]},)) if how == "tuple" else (lambda v: {"n": [v]})
    return {k: (wrap(v) if k == "b" and v is not None else v) for k, v in d.items()}


def unnest(v):
    if isinstance(v, tuple) and len(v) == 1:
        v = v[0]
    return v["n"][0] if isinstance(v, dict) and list(v) == ["n"] else v


def to_abs_nested(it):
    return to_abs({k: unnest(v) for k, v in dict(it).items()})


def do_call(lists, e, nested=False):
    a = e["a"]
    x = lists[e["x"] - 1]
    op = a["op"]
    if op == "poke":
        # the user's own assignment into one dict (or into the container it holds); the list object is not used
        item = list.__getitem__(x, a["i"])
        v = None if a["v"] == -1 else a["v"]
        cur = item.get("b")
        if isinstance(cur, tuple) and len(cur) == 1:
            cur = cur[0]
        if isinstance(cur, dict) and v is not None:
            cur["n"][0] = v
        else:
            item["b"] = v
        return None
    if nested and op == "append":
        return x.append(nest(to_py(a["item"]), nested))
    if nested and op == "insert":
        return x.insert(a["i"], nest(to_py(a["item"]), nested))
    if op == "deepcopy":
        return x.deepcopy()
    if op == "keys":
        return list(x.keys())
    if op == "pluck":
        return x.pluck(a["k"])
    if op == "sample":
        return x.sample(a["n"])
    if op == "drop_na":
        return x.drop_na(*a["keys"])
    if op in ("extend", "add"):
        o = lists[e["o"] - 1]
        return x.extend(o) if op == "extend" else x + o
    if op in ("semi", "anti", "inner", "left"):
        o = lists[e["o"] - 1]
        by = ("a", "aa") if a.get("ren") else "a"
        return getattr(x, op + "_join")(o, by)
    return call15(x, a)


class Lists:
    """The lists of a session; an entry can be held weakly (a temporary of a method chain: the harness does not keep
    it alive, only the library's own references do).  A dead entry reads as None."""

    def __init__(self):
        self._e = []

    def append(self, obj):
        self._e.append(["s", obj, None])

    def weaken(self, i, last):
        import weakref
        self._e[i] = ["w", weakref.ref(self._e[i][1]), last]

    def __len__(self):
        return len(self._e)

    def __getitem__(self, i):
        kind, ref, _ = self._e[i]
        return ref if kind == "s" else ref()

    def __iter__(self):
        return (self[i] for i in range(len(self._e)))

    def last_seen(self, i):
        return self._e[i][2]


class Session:
    def __init__(self, init_items, nested=False):
        import dataiter as di
        self.ids = {}
        self.keep = []
        self.nested = nested
        self._hold = None
        self.lists = Lists()
        self.lists.append(di.ListOfDicts([(nest(to_py(x), nested) if nested else to_py(x)) for x in init_items]))
        self.note(self.lists[0])

    def note(self, lst):
        for it in list.__iter__(lst):
            if id(it) not in self.ids:
                self.ids[id(it)] = len(self.ids) + 1
                self.keep.append(it)

    def observe(self):
        out = []
        for i in range(len(self.lists)):
            l = self.lists[i]
            if l is None:          # a temporary that nothing keeps alive any more: last observation, marked gone
                out.append(dict(self.lists.last_seen(i), gone=True))
            else:
                out.append({"its": [self.ids[id(it)] for it in list.__iter__(l)], "ob": bool(l._obsolete)})
            del l
        return {"lists": out, "items": [to_abs_nested(it) for it in self.keep]}

    def step(self, e):
        buf = io.StringIO()
        err = ""
        ret = []
        fresh = True
        try:
            with contextlib.redirect_stdout(buf):
                out = do_call(self.lists, e, self.nested)
            if e["a"]["op"] in READERS:
                ret = [(-1 if unnest(v) is None else unnest(v)) if not isinstance(v, str) else v for v in out]
            elif e["a"]["op"] == "poke":
                pass
            else:
                fresh = all(out is not l for l in self.lists)
                self.lists.append(out)
                self.note(out)
        except Exception as ex:
            err = type(ex).__name__ + ": " + str(ex)[:80]
        # a temporary created by the previous call stayed alive for this call (as inside a method chain); now it is let go
        self._hold = None
        if e.get("tmp") and not err and e["a"]["op"] not in READERS and e["a"]["op"] != "poke":
            self._hold = out
        out = None
        obs = self.observe()
        if self._hold is not None:
            self.lists.weaken(len(self.lists) - 1, obs["lists"][-1])       # held weakly from now on
        obs["ret"] = ret
        obs["fresh"] = fresh
        obs["warn"] = buf.getvalue().count(WARNING)
        obs["err"] = err
        return obs


def has_key_everywhere(lst, k):
    return all(k in it for it in list.__iter__(lst))


def random_trace(rng, nsteps):
    init = [{"a": rng.choice([-1, 0, 1]), **({"b": rng.choice([-1, 0, 1])} if rng.random() < 0.8 else {})}
            for _ in range(rng.randint(0, 3))]
    nested = rng.choice([False, False, False, True, True, "tuple"])
    s = Session(init, nested)
    tr = {"init": {"items": [to_abs_nested(x) for x in s.keep], "lists": [[s.ids[id(it)] for it in list.__iter__(s.lists[0])]]},
          "nested": nested, "steps": []}
    warned = {1: False}
    chain = None          # index of a temporary created by the previous call: the next call is made on it (a method chain)
    for _ in range(nsteps):
        alive = [i + 1 for i in range(len(s.lists)) if s.lists[i] is not None]
        x = chain if (chain and s.lists[chain - 1] is not None) else rng.choice(alive)
        if rng.random() < 0.25 and len(s.lists) >= 1 and not chain:
            o = rng.choice(alive)
            a = {"op": rng.choice(BINARY)}
            if a["op"] in ("semi", "anti", "inner", "left"):
                # differently named keys whenever the other list has been renamed to carry "aa"
                ol = s.lists[o - 1]
                if len(ol) and all("aa" in it and "a" not in it for it in list.__iter__(ol)):
                    a["ren"] = True
            # an argument list that is obsolete and has not yet warned would add its own warning line when
            # the callee uses it: keep the observation unambiguous by "using" it first (a logged copy)
            olist = s.lists[o - 1]
            if olist._obsolete and not olist._obsolete_warned and o != x:
                e0 = {"x": o, "o": 0, "a": {"op": "copy"}}
                e0["obs"] = s.step(e0)
                tr["steps"].append(e0)
            e = {"x": x, "o": o, "a": a}
        elif rng.random() < 0.12 and len(s.lists[x - 1]):
            e = {"x": x, "o": 0, "a": {"op": "poke", "i": rng.randrange(len(s.lists[x - 1])), "v": rng.choice([0, 1, 1, -1])}}
        else:
            e = {"x": x, "o": 0, "a": rng.choice(UNARY)}
        if len(s.keep) > 40 or len(s.lists) > 12:
            break
        chain = None
        if e["a"]["op"] in CHAINABLE and rng.random() < 0.3:
            e["tmp"] = True
        n0 = len(s.lists)
        e["obs"] = s.step(e)
        tr["steps"].append(e)
        if e["obs"]["err"]:
            break
        if e.get("tmp") and len(s.lists) == n0 + 1:
            chain = n0 + 1
    return tr


def deepcopy_trace(rng):
    """Focused history: (derive) -> deepcopy -> assignments into dicts / containers of the copy and of the original.
    Items are heterogeneous: some hold only scalars, later ones hold a container."""
    init = [{"a": rng.choice([-1, 0, 1]), **({"b": rng.choice([-1, -1, 0, 1])} if rng.random() < 0.8 else {})}
            for _ in range(rng.randint(1, 4))]
    nested = rng.choice([True, "tuple"])
    s = Session(init, nested=nested)
    tr = {"init": {"items": [to_abs_nested(x) for x in s.keep], "lists": [[s.ids[id(it)] for it in list.__iter__(s.lists[0])]]},
          "nested": nested, "steps": []}

    def do(e):
        e["obs"] = s.step(e)
        tr["steps"].append(e)
        return not e["obs"]["err"]
    if rng.random() < 0.4:
        do({"x": 1, "o": 0, "a": rng.choice([a for a in UNARY if a["op"] in ("sort", "reverse", "copy", "append", "filter", "select", "rename")])})
    src = len(s.lists)
    if not do({"x": src, "o": 0, "a": {"op": "deepcopy"}}):
        return tr
    cp = len(s.lists)
    for _ in range(rng.randint(1, 3)):
        x = rng.choice([cp, cp, src])
        if len(s.lists[x - 1]):
            do({"x": x, "o": 0, "a": {"op": "poke", "i": rng.randrange(len(s.lists[x - 1])), "v": rng.choice([0, 1])}})
    if rng.random() < 0.5:
        do({"x": cp, "o": 0, "a": rng.choice([a for a in UNARY if a["op"] in ("modify", "fill", "unselect", "fill_all")])})
    return tr


def chain_trace(rng):
    """Focused history: a method chain whose intermediate lists nobody keeps - a.filter(..).sort(..) - and then an
    editing method on the result: every list the result was derived from, the original included, is obsolete."""
    init = [{"a": rng.choice([-1, 0, 1]), "b": rng.choice([-1, 0, 1])} for _ in range(rng.randint(2, 4))]
    nested = rng.choice([False, False, True])
    s = Session(init, nested)
    tr = {"init": {"items": [to_abs_nested(x) for x in s.keep], "lists": [[s.ids[id(it)] for it in list.__iter__(s.lists[0])]]},
          "nested": nested, "steps": []}
    sharing = [a for a in UNARY if a["op"] in ("filter", "filter_out", "sort", "unique", "head", "tail", "slice", "copy", "reverse", "drop_na")
               and a.get("p", {}).get("f") != "false" and a.get("n", 1) != 0]
    x = 1
    for k in range(rng.randint(2, 3)):
        e = {"x": x, "o": 0, "a": rng.choice(sharing), "tmp": k < 2 and rng.random() < 0.8}
        e["obs"] = s.step(e)
        tr["steps"].append(e)
        if e["obs"]["err"]:
            return tr
        x = len(s.lists)
    if s.lists[x - 1] is not None and len(s.lists[x - 1]):
        e = {"x": x, "o": 0, "a": rng.choice([a for a in UNARY if a["op"] in ("modify", "fill", "fill_all", "unselect", "modify_if")])}
        e["obs"] = s.step(e)
        tr["steps"].append(e)
        e = {"x": 1, "o": 0, "a": {"op": "copy"}}          # the next use of the original: one warning
        e["obs"] = s.step(e)
        tr["steps"].append(e)
    return tr


def concat_trace(rng):
    """Focused history: repeated concatenation with the partial results kept - ab = a + b, abc = ab + c (or extend) -
    then an editing method on the result or a descendant: a, b, c, ab and abc all handed on the edited dicts."""
    init = [{"a": rng.choice([0, 1]), "b": rng.choice([-1, 0, 1])} for _ in range(rng.randint(1, 2))]
    s = Session(init, False)
    tr = {"init": {"items": [to_abs_nested(x) for x in s.keep], "lists": [[s.ids[id(it)] for it in list.__iter__(s.lists[0])]]},
          "nested": False, "steps": []}

    def do(e):
        e["obs"] = s.step(e)
        tr["steps"].append(e)
        return not e["obs"]["err"]
    ok = do({"x": 1, "o": 0, "a": {"op": "deepcopy"}}) and do({"x": 1, "o": 0, "a": {"op": "deepcopy"}})       # lists 2, 3: b and c
    ok = ok and do({"x": 1, "o": 2, "a": {"op": rng.choice(["add", "extend"])}})                                   # list 4: ab
    ok = ok and do({"x": 4, "o": 3, "a": {"op": rng.choice(["add", "extend"])}})                                   # list 5: abc
    x = 5
    if ok and rng.random() < 0.5:
        ok = do({"x": 5, "o": 0, "a": rng.choice([{"op": "copy"}, {"op": "reverse"}, {"op": "filter", "p": {"f": "true"}}])})
        x = 6
    if ok:
        do({"x": x, "o": 0, "a": rng.choice([{"op": "modify", "k": "x", "g": {"f": "const", "v": 1}}, {"op": "fill", "kv": [["x", -1]]}])})
    return tr


def rename_join_trace(rng):
    """Focused history: a copy of the list with its join key renamed (new dicts), then a join of the original with it
    on differently named keys: the right-hand operand is left exactly as it was - items, flags, no warning."""
    init = [{"a": rng.choice([0, 1]), "b": rng.choice([-1, 0, 1])} for _ in range(rng.randint(1, 3))]
    s = Session(init, False)
    tr = {"init": {"items": [to_abs_nested(x) for x in s.keep], "lists": [[s.ids[id(it)] for it in list.__iter__(s.lists[0])]]},
          "nested": False, "steps": []}

    def do(e):
        e["obs"] = s.step(e)
        tr["steps"].append(e)
        return not e["obs"]["err"]
    ok = do({"x": 1, "o": 0, "a": {"op": "deepcopy"}})                                   # list 2: the left-hand side to be
    ok = ok and do({"x": 1, "o": 0, "a": {"op": "select", "keys": ["a"]}})              # list 3: key only
    ok = ok and do({"x": 3, "o": 0, "a": {"op": "rename", "pairs": [["aa", "a"]]}})     # list 4: key renamed to aa
    ok = ok and do({"x": 4, "o": 0, "a": rng.choice([{"op": "modify", "k": "x", "g": {"f": "const", "v": 1}}, {"op": "copy"}])})   # list 5
    if ok:
        right = rng.choice([4, 5])
        do({"x": 2, "o": right, "a": {"op": rng.choice(["inner", "left", "semi", "anti"]), "ren": True}})
        do({"x": right, "o": 0, "a": {"op": "copy"}})                                   # the next use of the right-hand operand
    return tr


GEN_INIT = [{"a": 0, "b": -1}, {"a": 1, "b": 1}, {"a": 0}]      # LoDSMEvents!InitSt


def replay_behaviour(hist, nested=False):
    """Replays one TLC-generated behaviour (a sequence of events from LoDSMGen) on the real class."""
    s = Session([dict(x) for x in GEN_INIT], nested)
    tr = {"init": {"items": [to_abs_nested(x) for x in s.keep], "lists": [[s.ids[id(it)] for it in list.__iter__(s.lists[0])]]},
          "nested": nested, "steps": []}
    for e0 in hist:
        e = {"x": e0["x"], "o": e0["o"], "a": e0["a"]}
        e["obs"] = s.step(e)
        tr["steps"].append(e)
        if e["obs"]["err"]:
            break
    return tr


def sig_of(clause, tr, step):
    e = tr["steps"][step - 1]
    ops_before = [s["a"]["op"] for s in tr["steps"][:step - 1]]
    two_parent_edit = False
    if clause.startswith("SM:must-report-obsolete"):
        # named trigger of KF-C17-second-parent: the receiver descends (through sharing methods) from the
        # result of `+` / extend, whose second operand has no predecessor link
        two_parent_edit = any(o in ("add", "extend") for o in ops_before)
    return {"clause_class": clause.split(":")[1] if ":" in clause else clause, "op": e["a"]["op"],
            "history_has_two_parent_op": two_parent_edit}


def run(ctx):
    quick = ctx.tier == "quick"
    cfg = ("INIT Init\nNEXT Next\nINVARIANT Inv\nINVARIANT ActionProps\nCONSTANTS\n  MaxLists = %d\n  MaxItems = 12\n"
           % (3 if quick else 4))
    ctx.model_check("LoDSMMC", cfg_text=cfg, timeout=3000, coverage=False)
    # layer 2: the library's predecessor-link mechanism refines the contract flags (ObsMech.tla) ...
    mcfg = "INIT Init\nNEXT Next\nINVARIANT Inv\nCONSTANTS\n MaxLists = %d\n TwoParent = %s\n"
    ctx.model_check("ObsMechMC", cfg_text=mcfg % (4 if quick else 5, "TRUE"), timeout=3000)
    # ... and the single-predecessor design (the code before the FX-C17-second-parent repair) does not: TLC must
    # still find that design-level counterexample, otherwise the mechanism model has lost its teeth
    r0 = ctx.tlc("ObsMechMC", cfg_text=mcfg % (4, "FALSE"), timeout=3000)
    ctx.extra["obsmech_single_predecessor_design_refuted_by_tlc"] = bool(r0.invariant_violated)
    if not r0.invariant_violated:
        ctx.notes.append("spec-drift mechanism=ObsMech: the single-predecessor design is no longer refuted")
    rng = ctx.rng
    ntr = 1500 if quick else 20000
    traces = [random_trace(rng, rng.randint(2, 7)) for _ in range(ntr)]
    traces += [deepcopy_trace(rng) for _ in range(ntr // 4)]
    traces += [chain_trace(rng) for _ in range(ntr // 5)]
    traces += [rename_join_trace(rng) for _ in range(ntr // 8)]
    traces += [concat_trace(rng) for _ in range(ntr // 10)]
    # spec -> code: every behaviour of the session machine enumerated by TLC (LoDSMGen) is replayed call by call
    gcfg = "INIT Init\nNEXT Next\nINVARIANT Inv\nCONSTANTS\n  MaxLists = %d\n  MaxItems = 12\n  PreEvents = {%s}\n"
    rg = ctx.model_check("LoDSMGen", cfg_text=gcfg % (3, '"", "keys", "pluck", "poke"'), timeout=3000)
    behaviours = [j["hist"] for j in rg.json_lines if "hist" in j]
    ctx.extra["tlc_generated_behaviours"] = len(behaviours)
    if quick:
        behaviours = rng.sample(behaviours, min(len(behaviours), 9000))
    if not quick:
        rg4 = ctx.model_check("LoDSMGen", cfg_text=gcfg % (4, '""'), timeout=3400, heap="12g")      # one list deeper, without the optional pre-events
        b4 = [j["hist"] for j in rg4.json_lines if "hist" in j]
        behaviours += rng.sample(b4, min(len(b4), 20000))
    ctx.extra["tlc_generated_behaviours_replayed"] = len(behaviours)
    for n, hist in enumerate(behaviours):
        traces.append(replay_behaviour(hist, nested=(n % 3 == 0)))
    nsteps = sum(len(t["steps"]) for t in traces)
    bad = ctx_validate_traces(ctx, traces)
    for ti, step, clause in bad:
        tr = traces[ti]
        ctx.fail(clause.rsplit(":", 1)[0] if clause.count(":") >= 2 else clause, sig_of(clause, tr, step),
                 {"trace": tr, "failing_step": step, "clause": clause})
    for t in traces[:: max(1, len(traces) // 4)][:4]:
        ctx.sample({"init": t["init"], "steps": [{"x": s["x"], "o": s["o"], "a": s["a"], "obs_flags": [l["ob"] for l in s["obs"]["lists"]],
                                                   "warn": s["obs"]["warn"]} for s in t["steps"]]})
    ctx.evaluations = nsteps
    ops = {}
    for t in traces:
        for s in t["steps"]:
            ops[s["a"]["op"]] = ops.get(s["a"]["op"], 0) + 1
        if len(t["steps"]) >= 3 and any(s["a"]["op"] in EDITORS for s in t["steps"]):
            ctx.nontrivial.add(json.dumps([[s["x"], s["o"], s["a"]] for s in t["steps"]]))
    ctx.extra["steps_per_op"] = ops
    ctx.extra["histories"] = len(traces)
    ctx.exhaustive = False
    ctx.rule = ("LoDSMMC explores the session machine (filter/sort/.../deepcopy/editors/joins/+/extend over a shared item heap) "
                "exhaustively to %d lists and checks SharingConfined, flag and non-modification action properties; %d seeded "
                "histories of 2-7 calls forming arbitrary derivation trees are run on the real class, recording after every call all "
                "lists' item identities, all item contents, all _obsolete flags and the printed warning lines, and are validated "
                "step by step by LoDSMTrace. non-trivial = distinct histories of >= 3 calls containing an editing method"
                % (3 if quick else 4, ntr))
    ctx.assumptions += ["flags of ancestors reachable only through non-sharing derivations (select/rename/deepcopy) are a free point",
                        "an obsolete, not yet warned list is never passed as an argument without being used first (keeps warning lines attributable)",
                        "non-key fields present on both sides of inner/left join are not generated"]


def ctx_validate_traces(ctx, traces, chunk=4000):
    """LoDSMTrace reports (tid, step, clause)."""
    import os, shutil
    from harness import tlc as _tlc
    out = []
    for off in range(0, len(traces), chunk):
        part = traces[off:off + chunk]
        d = _tlc.scratch("verif-trace-")
        try:
            path = os.path.join(d, "trace.json")
            _tlc.write_json(path, part)
            r = ctx.tlc("LoDSMTrace", env={"TRACE_FILE": path}, cont=True, timeout=3000)
            seen = set()
            for b in r.bad:
                k = (b["tid"], b["step"], b["BAD"])
                if k not in seen:
                    seen.add(k)
                    out.append((off + b["tid"] - 1, b["step"], b["BAD"]))
            if r.invariant_violated and not r.bad:
                raise _tlc.TLCError("trace spec violation without BAD record:\n" + "\n".join(r.stdout.splitlines()[-40:]))
            ctx.validated += len(part)
        finally:
            shutil.rmtree(d, ignore_errors=True)
    return out


def replay(ctx, rp):
    for case in rp["cases"]:
        tr0 = case["trace"]
        s = Session([dict(x) for x in tr0["init"]["items"]], tr0.get("nested", False))
        tr = {"init": tr0["init"], "nested": tr0.get("nested", False), "steps": []}
        for e0 in tr0["steps"]:
            e = {"x": e0["x"], "o": e0["o"], "a": e0["a"]}
            e["obs"] = s.step(e)
            tr["steps"].append(e)
        bad = ctx_validate_traces(ctx, [tr])
        for _, step, clause in bad:
            ctx.fail(clause, sig_of(clause, tr, step), {"trace": tr, "failing_step": step})
        print("replayed history of", len(tr["steps"]), "calls ->", [(s_, c) for _, s_, c in bad] or "accepted")
