"""C06 - operations neither mutate nor alias their inputs (same machine as C01, clauses C06:*)."""
from props import c01


def run(ctx):
    c01.run_for(ctx, "C06")


def replay(ctx, rp):
    c01.replay_for(ctx, rp, "C06")
