"""C06 - operations neither mutate nor alias their inputs: DataFrame histories (FrameSM, clauses C06:*)
plus every public non-in-place Vector method (VectorSM)."""
import numpy as np

from harness import gamma
from props import c01

VEC_METHODS = ["drop_na", "head", "tail", "sample", "replace_na", "sort", "unique", "rank", "concat", "as_boolean",
               "as_bytes", "as_date", "as_datetime", "as_float", "as_integer", "as_object", "as_string", "map", "range",
               "tolist", "to_strings", "equal", "is_na", "copy", "concat_none", "concat_empty", "empty_concat"]
VEC_PALETTES = [gamma.FLOAT_INF, gamma.INT_SMALL, gamma.INT_BIG, gamma.STR_SHORT, gamma.STR_LONG, gamma.STR_FIXED,
                gamma.DATE, gamma.DATETIME, gamma.BOOL, gamma.OBJ_INT, gamma.BYTES, gamma.TIMEDELTA, gamma.UINT8]


def vec_call(v, m, pal, rng, other):
    if m in ("head", "tail", "sample"):
        return getattr(v, m)(rng.randint(0, 4))
    if m == "replace_na":
        return v.replace_na(pal.value(0))
    if m == "sort":
        return v.sort(dir=rng.choice([1, -1]))
    if m == "rank":
        return v.rank(method=rng.choice(["min", "max", "ordinal"]))
    if m == "concat":
        return v.concat(other)
    if m == "concat_none":
        return v.concat()
    if m == "concat_empty":
        return v.concat(v[:0])
    if m == "empty_concat":
        return v[:0].copy().concat(v)
    if m == "map":
        return v.map(lambda x: x)
    if m == "equal":
        return v.equal(other)
    return getattr(v, m)()


def vec_record(pal, cells, m, rng):
    rec = {"m": m, "before": cells, "after": [], "arg_before": [], "arg_after": [], "shares": False, "dtype_same": True,
           "poke_leaks": False, "err": "", "palette": pal.name}
    v = pal.vector(cells)
    other = pal.vector(cells[:2])
    if m in ("concat", "equal"):
        rec["arg_before"] = pal.alpha_seq(np.asarray(other))
    dt = v.dtype
    try:
        out = vec_call(v, m, pal, rng, other)
    except Exception as e:
        rec["err"] = type(e).__name__
        out = None
    rec["after"] = pal.alpha_seq(np.asarray(v))
    rec["dtype_same"] = v.dtype == dt
    if m in ("concat", "equal"):
        rec["arg_after"] = pal.alpha_seq(np.asarray(other))
    if isinstance(out, np.ndarray):
        rec["shares"] = bool(out is v or (out.size and v.size and np.shares_memory(out, v)) or
                             (out.size and other.size and np.shares_memory(out, other)))
        # a real in-place write into the result must not show in the receiver
        if out.size and v.size and out.dtype == v.dtype and pal is not gamma.STR_FIXED:
            try:
                snap = pal.alpha_seq(np.asarray(v))
                out[0] = pal.value(2 if len(pal.values) > 1 else 0)
                rec["poke_leaks"] = pal.alpha_seq(np.asarray(v)) != snap
            except Exception:
                pass
    return rec


def run(ctx):
    c01.run_for(ctx, "C06")
    # Vector half: VectorSMMC (heap model) + every method x palette x small vectors, judged by VectorSMTrace
    ctx.model_check("VectorSMMC")
    rng = ctx.rng
    records = []
    shapes = [[], [0], [-1], [2, -1, 0], [0, 0, 2, 4], [-1, -1]]
    for pal in VEC_PALETTES:
        for cells in shapes:
            if not pal.supports(cells):
                continue
            for m in VEC_METHODS:
                for _ in range(1 if ctx.tier == "quick" else 4):
                    records.append(vec_record(pal, list(cells), m, rng))
    bad = ctx.validate("VectorSMTrace", [{k: v for k, v in r.items() if k != "palette"} for r in records])
    for i, clause in bad:
        r = records[i]
        ctx.fail(":".join(clause.split(":")[:2]), {"method": r["m"], "legacy_fixed_width": r["palette"] == "str/fixedU", "detail": clause},
                 {"vector_call": r})
    ctx.extra["vector_calls"] = len(records)
    ctx.evaluations += len(records)
    ctx.rule += (" | Vector half: %d calls = %d methods x %d palettes (incl. legacy fixed-width strings) x 6 shapes, receiver/argument "
                 "snapshots, shares_memory and a real write into the result" % (len(records), len(VEC_METHODS), len(VEC_PALETTES)))


def replay(ctx, rp):
    vec = [c for c in rp["cases"] if "vector_call" in c]
    if vec:
        import random
        for c in vec:
            r0 = c["vector_call"]
            r = vec_record(gamma.BY_NAME[r0["palette"]], r0["before"], r0["m"], random.Random(0))
            bad = ctx.validate("VectorSMTrace", [{k: v for k, v in r.items() if k != "palette"}])
            for _, clause in bad:
                ctx.fail(":".join(clause.split(":")[:2]), {"method": r["m"], "legacy_fixed_width": r["palette"] == "str/fixedU", "detail": clause}, {"vector_call": r})
            print("replayed vector call", r0["m"], "->", [c_ for _, c_ in bad] or "accepted")
    rest = {"cases": [c for c in rp["cases"] if "vector_call" not in c]}
    if rest["cases"]:
        c01.replay_for(ctx, rest, "C06")
