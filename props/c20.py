"""C20 - text rendering is total, side-effect free and structurally faithful."""
import contextlib
import copy
import datetime
import io
import json
import math
import re

import numpy as np
import wcwidth

TOTAL_RE = re.compile(r"^\.\.\. (\d+) rows total$")


def W(s):
    return max(wcwidth.wcswidth(s), 0)


def text_of_width(rng, w, first_alpha=True):
    """A space-free string of display width exactly w from narrow, wide (CJK) and combining characters."""
    out, cur = "", 0
    while cur < w:
        kind = rng.choice(["n", "n", "w", "c"])
        if kind == "w" and cur + 2 <= w:
            out += rng.choice("漢字表示幅")
            cur += 2
        elif kind == "c" and out and cur < w:
            out += rng.choice("aeo") + "́"
            cur += 1
        else:
            out += rng.choice("abcxyz")
            cur += 1
    return out


def parse_frame_text(s):
    """Returned string -> observation (blocks, total).  Pure structure, no verdicts."""
    obs = {"wellformed": False, "blocks": [], "total": -1, "stray": False}
    lines = s.split("\n")
    # a line boundary other than "\n" (\r, \x0b, \x0c, \x1c-\x1e, \x85, U+2028, U+2029) left inside a line
    obs["stray"] = any(len(ln.splitlines()) > 1 or ln != "".join(ln.splitlines()) for ln in lines)
    if len(lines) < 2 or lines[0] != ".":
        return obs
    m = TOTAL_RE.match(lines[-1])
    if m:
        obs["total"] = int(m.group(1))
        lines = lines[:-1]
    if lines[-1] != ".":
        return obs
    body = lines[1:-1]
    blocks, cur = [], []
    for ln in body:
        if ln == "":
            blocks.append(cur)
            cur = []
        else:
            cur.append(ln)
    blocks.append(cur)
    for b in blocks:
        if len(b) < 3 or set(b[2].replace(" ", "")) - {"─"}:
            return obs
        obs["blocks"].append({"lineW": [W(x) for x in b], "names": b[0].split(), "nlabels": len(b[1].split()),
                              "dataRows": len(b) - 3})
    obs["wellformed"] = True
    return obs


def snapshot(obj):
    import dataiter as di
    if isinstance(obj, di.DataFrame):
        s = [(k, str(v.dtype), np.asarray(v).tolist() if v.dtype.kind != "M" else [str(x) for x in np.asarray(v)]) for k, v in dict.items(obj)]
        extra = dict(getattr(obj, "metadata", {})) if isinstance(obj, di.GeoJSON) else None
        return repr((s, tuple(obj._group_colnames), json.dumps(extra, sort_keys=True, default=str)))
    if isinstance(obj, di.ListOfDicts):
        return repr([sorted(d.items(), key=lambda kv: kv[0]) for d in obj])
    if isinstance(obj, np.ndarray):
        return repr((str(obj.dtype), np.asarray(obj).tolist() if obj.dtype.kind != "M" else [str(x) for x in np.asarray(obj)]))
    return repr(obj)


def render(obj, how, kwargs):
    buf = io.StringIO()
    if how == "str":
        return str(obj)
    if how == "repr":
        return repr(obj)
    if how == "to_string":
        return obj.to_string(**kwargs)
    with contextlib.redirect_stdout(buf):
        obj.print_(**kwargs)
    out = buf.getvalue()
    return out[:-1] if out.endswith("\n") else out


# ---------- part A: TLC-enumerated layouts with strings of exactly the enumerated display widths ----------
def build_layout_frame(rng, ws, nrow):
    import dataiter as di
    cols = {}
    for i, w in enumerate(ws):
        if w == 5:
            name = "c%d" % i          # int64 column: label "int64" is the widest thing
            cols[name] = di.Vector([rng.randint(0, 99) for _ in range(nrow)], int)
        else:
            if rng.random() < 0.5 or nrow == 0:
                name = text_of_width(rng, w - len(str(i))) + str(i)          # the name defines the width
                cells = [text_of_width(rng, rng.randint(1, min(w, 6))) for _ in range(nrow)]
            else:
                name = "n%d" % i
                cells = [text_of_width(rng, rng.randint(1, w)) for _ in range(nrow)]
                cells[0] = text_of_width(rng, w)          # row 0 is always among the rows shown
            cols[name] = di.Vector(cells, str)
    return di.DataFrame(**cols)


def do_layout(rng, lay):
    nrow = rng.choice([0, 1, 3, 3, 11])
    max_rows = rng.choice([1, 2, 3, 5, 20])
    how = rng.choice(["to_string", "print_"])
    rec = {"k": "frame", "how": how, "err": "", "pure": True, "empty": False,
           "in": {"nrow": nrow, "cols": [], "maxRows": max_rows, "maxWidth": lay["mw"]},
           "obs": {"wellformed": False, "blocks": [], "total": -1, "stray": False}, "drift": False}
    try:
        d = build_layout_frame(rng, lay["ws"], nrow)
        rec["in"]["cols"] = list(d.keys())
        before = snapshot(d)
        s = render(d, how, {"max_rows": max_rows, "max_width": lay["mw"], "truncate_width": 40})
        rec["pure"] = snapshot(d) == before
        rec["empty"] = s == ""
        rec["obs"] = parse_frame_text(s)
        # layer 2 (RenderMech): does the observed block partition match the mechanism model? (gutter fixed to 1 in the emission)
        shown = min(nrow, max_rows)
        if shown and len(str(shown - 1)) == 1 and rec["obs"]["wellformed"]:
            rec["drift"] = [len(b["names"]) for b in rec["obs"]["blocks"]] != [k for _, k in lay["batches"]]
    except Exception as e:
        rec["err"] = type(e).__name__ + ": " + str(e)[:80]
    return rec


# ---------- part B: arbitrary objects of the four classes ----------
def random_column(rng, n):
    import dataiter as di
    kind = rng.choice(["float", "floatx", "int", "bool", "str", "strw", "strml", "date", "datetime", "timedelta", "bytes", "obj", "allna", "objna"])
    if kind == "float":
        return di.Vector([rng.choice([0.5, -1.25, 1e3, math.nan]) for _ in range(n)], float)
    if kind == "floatx":
        return di.Vector([rng.choice([math.inf, -math.inf, math.nan, 1e-300, 1e300, 0.1]) for _ in range(n)], float)
    if kind == "int":
        return di.Vector([rng.choice([0, -7, 2**53, 12345678]) for _ in range(n)], int)
    if kind == "bool":
        return di.Vector([rng.random() < 0.5 for _ in range(n)], bool)
    if kind == "str":
        return di.Vector([rng.choice(["", "a", "hello world", "x" * 60]) for _ in range(n)], str)
    if kind == "strw":
        return di.Vector([rng.choice(["漢字", "ét́", "ＡＢ", "ä€", ""]) for _ in range(n)], str)
    if kind == "strml":
        return di.Vector([rng.choice(["one\ntwo", "a\n", "\nb", "plain", "cr\r\nlf", "x\ry", "p\x0bq", "f\x0cg", "u\u2028v", "w\x85z", "r\x1es"])
                          for _ in range(n)], str)
    if kind == "date":
        return di.Vector([rng.choice([datetime.date(1, 1, 1), datetime.date(2024, 2, 29), None]) for _ in range(n)], "datetime64[D]")
    if kind == "datetime":
        return di.Vector([rng.choice([datetime.datetime(1999, 12, 31, 23, 59, 59, 999999), None]) for _ in range(n)], "datetime64[us]")
    if kind == "timedelta":
        return di.Vector(np.array([rng.choice([5, -3, "NaT"]) for _ in range(n)], dtype="timedelta64[s]"))
    if kind == "bytes":
        return di.Vector([rng.choice([b"ab", b"\xff"]) for _ in range(n)])
    if kind == "obj":
        # (no tuples / lists: NumPy would build a 2-D array from them)
        return di.Vector([rng.choice([frozenset([1]), {"k": [1]}, None, "s\nt", "u\n", 3.5, "v\r\nw", "y\u2029z"]) for _ in range(n)], object)
    if kind == "objna":
        return di.Vector([None] * n, object)
    return di.Vector([math.nan] * n, float)


def random_name(rng, i):
    return rng.choice(["a", "long_name_", "漢字", "é", "x"]) + str(i)


def do_random_frame(rng):
    import dataiter as di
    nrow = rng.choice([0, 0, 1, 2, 5, 12])
    ncol = rng.choice([0, 1, 2, 3, 6])
    how = rng.choice(["str", "repr", "to_string", "print_"])
    kw = {}
    eff_rows, eff_width = 100, None
    if how in ("to_string", "print_"):
        if rng.random() < 0.7:
            kw["max_rows"] = rng.choice([1, 2, 4, 50])
            eff_rows = kw["max_rows"]
        if rng.random() < 0.7:
            kw["max_width"] = rng.choice([10, 14, 20, 33, 40, 80])
        if rng.random() < 0.5:
            kw["truncate_width"] = rng.choice([2, 5, 12, 36])
    rec = {"k": "frame", "how": how, "err": "", "pure": True, "empty": False,
           "in": {"nrow": nrow, "cols": [], "maxRows": eff_rows, "maxWidth": kw.get("max_width", 0)},
           "obs": {"wellformed": False, "blocks": [], "total": -1, "stray": False}, "drift": False}
    old = (di.PRINT_MAX_ROWS, di.PRINT_TRUNCATE_WIDTH, di.PRINT_FLOAT_PRECISION, di.PRINT_THOUSAND_SEPARATOR)
    try:
        if rng.random() < 0.3:
            di.PRINT_MAX_ROWS = rng.choice([3, 10])
            if "max_rows" not in kw:
                rec["in"]["maxRows"] = di.PRINT_MAX_ROWS
            di.PRINT_TRUNCATE_WIDTH = rng.choice([4, 20])
            di.PRINT_FLOAT_PRECISION = rng.choice([2, 6])
            di.PRINT_THOUSAND_SEPARATOR = rng.choice(["", ","])
        d = di.DataFrame(**{random_name(rng, i): random_column(rng, nrow) for i in range(ncol)})
        if rng.random() < 0.2 and ncol:
            d.group_by(list(d.keys())[0])
        rec["in"]["cols"] = list(d.keys())
        before = snapshot(d)
        s = render(d, how, kw)
        rec["pure"] = snapshot(d) == before
        rec["empty"] = s == ""
        rec["obs"] = parse_frame_text(s)
    except Exception as e:
        rec["err"] = type(e).__name__ + ": " + str(e)[:80]
    finally:
        di.PRINT_MAX_ROWS, di.PRINT_TRUNCATE_WIDTH, di.PRINT_FLOAT_PRECISION, di.PRINT_THOUSAND_SEPARATOR = old
    return rec


def do_random_geo(rng, how):
    """A GeoJSON object is a data frame with a geometry column: its rendering is judged like any frame's."""
    import dataiter as di
    n = rng.choice([0, 1, 3, 4, 9])
    kw = {}
    eff_rows = 100
    if how in ("to_string", "print_") and rng.random() < 0.7:
        kw["max_rows"] = eff_rows = rng.choice([1, 2, 5])
    if how in ("to_string", "print_") and rng.random() < 0.4:
        kw["max_width"] = rng.choice([14, 33, 80])
    if how in ("to_string", "print_") and rng.random() < 0.3:
        kw["truncate_width"] = rng.choice([5, 12, 36])
    rec = {"k": "frame", "cls": "GeoJSON", "how": how, "err": "", "pure": True, "empty": False,
           "in": {"nrow": n, "cols": [], "maxRows": eff_rows, "maxWidth": kw.get("max_width", 0)},
           "obs": {"wellformed": False, "blocks": [], "total": -1, "stray": False}, "drift": False}
    try:
        geoms = [{"type": "Point", "coordinates": [1, 2]}, None, {"type": "LineString", "coordinates": [[0, 0], [1, 1]]}]
        cols = {random_name(rng, i): random_column(rng, n) for i in range(rng.choice([0, 1, 2]))}
        obj = di.GeoJSON(**cols, geometry=di.Vector([rng.choice(geoms) for _ in range(n)], object))
        obj.metadata["name"] = "x"
        if rng.random() < 0.25:
            obj.group_by(list(obj.keys())[0])
        rec["in"]["cols"] = list(obj.keys())
        before = snapshot(obj)
        s = render(obj, how, kw)
        rec["pure"] = snapshot(obj) == before
        rec["empty"] = s == ""
        rec["obs"] = parse_frame_text(s)
    except Exception as e:
        rec["err"] = type(e).__name__ + ": " + str(e)[:80]
    return rec


def do_random_other(rng):
    import dataiter as di
    cls = rng.choice(["Vector", "ListOfDicts", "GeoJSON"])
    how = rng.choice(["str", "repr", "to_string", "print_"])
    rec = {"k": "any", "cls": cls, "how": how, "err": "", "pure": True, "shape_ok": True}
    try:
        kw = {}
        if cls == "Vector":
            n = rng.choice([0, 1, 3, 30, 150])
            obj = random_column(rng, n)
            if how == "print_":
                how = rec["how"] = "to_string"
            if how == "to_string" and rng.random() < 0.7:
                kw["max_elements"] = rng.choice([1, 5, 200])
            before = snapshot(obj)
            s = render(obj, how, kw)
            label = "string" if obj.is_string() else str(obj.dtype)
            rec["shape_ok"] = s.startswith("[") and s.rstrip().endswith("] " + label)
        elif cls == "ListOfDicts":
            n = rng.choice([0, 1, 3, 15])
            obj = di.ListOfDicts([{"a": rng.choice([1, None, "x\ny", 2.5, math.nan, math.inf, -math.inf]), **({"b": [1, {"c": None}]} if rng.random() < 0.5 else {})}
                                  for _ in range(n)])
            if how in ("to_string", "print_") and rng.random() < 0.7:
                kw["max_items"] = rng.choice([1, 2, 20])
            before = snapshot(obj)
            s = render(obj, how, kw)
            shown = kw.get("max_items", di.PRINT_MAX_ITEMS)
            m = re.search(r" \.\.\. (\d+) items total$", s)
            body = s[:m.start()] if m else s
            parsed = json.loads(body)
            rec["shape_ok"] = (len(parsed) == min(n, shown)) and ((m is not None and int(m.group(1)) == n) == (shown < n))
        else:
            return do_random_geo(rng, how)
        rec["pure"] = snapshot(obj) == before
    except Exception as e:
        rec["err"] = type(e).__name__ + ": " + str(e)[:80]
    return rec


def do_aux(rng):
    """Beyond the property's four renderers: print_na_counts / print_memory_use of frames and lists (totality, purity;
    reported as NOTE)."""
    import dataiter as di
    how = rng.choice(["print_na_counts", "print_memory_use"])
    cls = rng.choice(["DataFrame", "ListOfDicts"])
    rec = {"k": "any", "cls": cls, "how": how, "err": "", "pure": True, "shape_ok": True}
    try:
        if cls == "DataFrame":
            nrow = rng.choice([0, 1, 3])
            obj = di.DataFrame(**{random_name(rng, i): random_column(rng, nrow) for i in range(rng.choice([0, 1, 3]))})
        else:
            obj = di.ListOfDicts([{"a": rng.choice([1, None, "x", math.nan]), **({"b": None} if rng.random() < 0.5 else {})}
                                  for _ in range(rng.choice([0, 1, 4]))])
        before = snapshot(obj)
        with contextlib.redirect_stdout(io.StringIO()):
            getattr(obj, how)()
        rec["pure"] = snapshot(obj) == before
    except Exception as e:
        rec["err"] = type(e).__name__ + ": " + str(e)[:80]
    return rec


def sig_of(rec):
    if rec["k"] == "frame":
        return {"k": "frame", "cls": rec.get("cls", "DataFrame"), "how": rec["how"], "nrow0": rec["in"]["nrow"] == 0,
                "ncol0": not rec["in"]["cols"]}
    return {"k": "any", "cls": rec["cls"], "how": rec["how"]}


def run(ctx):
    quick = ctx.tier == "quick"
    cfg = ('INIT Init\nNEXT Next\nINVARIANT Inv\nCONSTANTS\n MaxCols = %d\n Widths = {5, 6, 8, 11, 16}\n MaxWidths = {8, 10, 14, 18, 24, 33, 40}\n Emit = TRUE\n'
           % (3 if quick else 4))
    r = ctx.model_check("RenderMC", cfg_text=cfg, timeout=3000)
    lays = [j for j in r.json_lines if "ws" in j and j["ws"]]
    rng = ctx.rng
    records = []
    for lay in (lays if not quick else rng.sample(lays, min(len(lays), 900))):
        for _ in range(1 if quick else 3):
            records.append(do_layout(rng, lay))
    for _ in range(1500 if quick else 60000):
        records.append(do_random_frame(rng))
    for _ in range(900 if quick else 30000):
        records.append(do_random_other(rng))
    drift = sum(1 for x in records if x.get("drift"))
    if drift:
        ctx.notes.append("spec-drift mechanism=RenderMech: %d renderings whose block partition differs from the batch-loop model" % drift)
    for x in records:
        ctx.count(json.dumps({k: v for k, v in x.items() if k in ("k", "how", "in", "cls")}, sort_keys=True),
                  x["k"] == "frame" and len(x["in"]["cols"]) >= 2)
    slim = [{k: v for k, v in x.items() if k != "drift"} for x in records]
    bad = ctx.validate("RenderTrace", slim)
    for i, clause in bad:
        ctx.fail(clause, sig_of(records[i]), {"rec": records[i]})
    aux = [do_aux(rng) for _ in range(300 if quick else 3000)]
    seen = {}
    for i, clause in ctx.validate("RenderTrace", aux):
        seen.setdefault(clause, aux[i])
    for clause, rec in sorted(seen.items()):
        ctx.notes.append("outside-listed-properties Render %s example=%s" % (clause, rec))
    ctx.extra["neighbourhood"] = {"spec": "Render.JudgeAny", "calls": len(aux), "rejected_clauses": sorted(seen)}
    for i in range(0, len(records), max(1, len(records) // 6)):
        ctx.sample(records[i])
    ctx.extra["layouts_enumerated"] = len(lays)
    ctx.exhaustive = False
    ctx.rule = ("RenderMC enumerates column-width vectors (<= %d columns over display widths {5,6,8,11,16}) x max_width and checks the batch "
                "loop model (RenderMech) against the layout predicates; frames whose names / cells have exactly those display widths "
                "(narrow, CJK-wide and combining characters) are rendered with random nrow / max_rows and the parsed output is judged; plus "
                "seeded arbitrary DataFrames over 14 column kinds (inf, NaN, 1e300, multi-line and wide strings, objects, dates, timedeltas, "
                "bytes, all-missing, 0 rows, 0 columns, grouped, PRINT_* settings) through str / repr / to_string / print_, and Vectors, "
                "ListOfDicts, GeoJSON objects (null geometries) for totality, purity and their documented structure. non-trivial = frames with >= 2 columns"
                % (3 if quick else 4))
    ctx.assumptions += ["wcwidth is the display-width reference (as in the library); float formatting and exact truncation points are free",
                        "max_rows / max_width / truncate_width values of 0 or None mean 'default' and are generated as >= 1 or omitted"]


def replay(ctx, rp):
    import random
    for case in rp["cases"]:
        r0 = case["rec"]
        recs = []
        for s in range(40):
            rng = random.Random(s)
            recs.append(do_random_geo(rng, r0["how"]) if r0.get("cls") == "GeoJSON" else
                        do_random_frame(rng) if r0["k"] == "frame" else do_random_other(rng))
        recs = [x for x in recs if sig_of(x) == sig_of(r0)] or recs
        bad = ctx.validate("RenderTrace", [{k: v for k, v in x.items() if k != "drift"} for x in recs])
        for i, clause in bad:
            ctx.fail(clause, sig_of(recs[i]), {"rec": recs[i]})
        print("replayed class", sig_of(r0), "x%d ->" % len(recs), sorted({c for _, c in bad}) or "accepted")
