"""C18 - GeoJSON read/write is faithful to the feature collection."""
import json
import os
import shutil
import tempfile

import numpy as np

GEOMS = [None,
         {"type": "Point", "coordinates": [24.9, 60.2]},
         {"type": "Polygon", "coordinates": [[[0, 0], [1, 0.5], [1, 1], [0, 0]]], "bbox": [0, 0, 1, 1]}]
# concrete values per key: u int, v str (non-ASCII, quote, backslash), w float / bool by variant
VALS = {"u": [1, 2], "v": ["a", 'é"q\\z'], "w": [0.5, 2.0], "wb": [True, False]}
META_NAMES = ["name", 'na"me', "back\\slash", "ünï", "u", "crs", "bbox"]
META_VALS = [7, 'x"y\\z', [1, [2, "a"]], {"k": {"l": None}}, None, True, 1.5]


def concrete_fc(afc, meta, wkind):
    feats = []
    for f in afc["features"]:
        props = {}
        for k, v in dict(f["p"] or {}).items():
            vals = VALS["wb"] if (k == "w" and wkind == "bool") else VALS[k]
            props[k] = None if v == -1 else vals[v]
        feats.append({"type": "Feature", "properties": props, "geometry": GEOMS[f["g"]]})
    d = {"type": "FeatureCollection"}
    for n, v in meta:
        d[META_NAMES[n]] = META_VALS[v]
    d["features"] = feats
    return d


def abs_val(k, x, wkind):
    if x is None:
        return -1
    if isinstance(x, float) and x != x:
        return -1
    if isinstance(x, str) and x == "":
        return -1
    vals = VALS["wb"] if (k == "w" and wkind == "bool") else VALS.get(k, [])
    for i, v in enumerate(vals):
        try:
            if type(v) is bool or type(x) in (bool, np.bool_):
                if bool(x) == v and isinstance(x, (bool, np.bool_)):
                    return i
            elif x == v:
                return i
        except Exception:
            pass
    return -99


def abs_geom(g):
    for i, x in enumerate(GEOMS):
        if g == x and (g is None) == (x is None):
            return i
    return -99


def abs_meta(md):
    out, n = [], 0
    for name, v in md.items():
        if name == "type":
            continue
        n += 1
        ni = META_NAMES.index(name) if name in META_NAMES else -99
        vi = -99
        try:
            v = json.loads(json.dumps(v))       # plain JSON structure (the library wraps objects in AttributeDict)
        except (TypeError, ValueError):
            pass
        for i, x in enumerate(META_VALS):
            if type(x) is type(v) and x == v:
                vi = i
        out.append([ni, vi])
    return out, n


def observe_read(g, wkind):
    cols = list(g.keys())
    cell = {}
    for c in cols:
        if c == "geometry":
            continue
        arr = np.asarray(g[c])
        cell[c] = [abs_val(c, (x.item() if isinstance(x, np.generic) else x), wkind) for x in arr.tolist()]
    geom = [abs_geom(x) for x in (list(g["geometry"]) if "geometry" in g else [])]
    meta, n = abs_meta(dict(g.metadata))
    return {"cols": cols, "cell": cell, "geom": geom, "meta": meta, "metacount": n,
            "type_ok": dict(g.metadata).get("type") == "FeatureCollection"}


def execute(afc, meta, wkind, indent, suffix):
    import dataiter as di
    afc = {"features": [{"p": dict(f["p"] or {}), "g": f["g"]} for f in afc["features"]]}
    rec = {"fc": {"features": afc["features"], "meta": [list(m) for m in meta]}, "err": "", "stage": "",
           "read1": {"cols": [], "cell": {}, "geom": [], "meta": [], "metacount": 0},
           "written": {"valid": False, "features": [], "meta": [], "metacount": 0},
           "read2": {"cols": [], "cell": {}, "geom": [], "meta": [], "metacount": 0}}
    d = tempfile.mkdtemp(prefix="verif-geo-")
    try:
        src = os.path.join(d, "in.geojson")
        with open(src, "w", encoding="utf-8") as f:
            json.dump(concrete_fc(afc, meta, wkind), f, ensure_ascii=False)
        rec["stage"] = "read"
        g = di.GeoJSON.read(src)
        rec["read1"] = observe_read(g, wkind)
        out = os.path.join(d, "out.geojson" + suffix)
        rec["stage"] = "write"
        if indent == "default":
            g.write(out)
        else:
            g.write(out, indent=indent)
        rec["stage"] = "parse"
        try:
            from dataiter import util as _util
            with _util.xopen(out, "rt", encoding="utf-8") as f:
                parsed = json.load(f)
            feats = []
            for ft in parsed.get("features", []):
                props = ft.get("properties") or {}
                feats.append({"p": {k: abs_val(k, v, wkind) for k, v in props.items()}, "g": abs_geom(ft.get("geometry"))})
            m, n = abs_meta({k: v for k, v in parsed.items() if k != "features"})
            rec["written"] = {"valid": parsed.get("type") == "FeatureCollection" and all(ft.get("type") == "Feature" for ft in parsed["features"]),
                              "features": feats, "meta": m, "metacount": n}
        except ValueError:
            rec["written"]["valid"] = False
            return rec
        rec["stage"] = "reread"
        g2 = di.GeoJSON.read(out)
        rec["read2"] = observe_read(g2, wkind)
    except Exception as e:
        rec["err"] = type(e).__name__ + ": " + str(e)[:90]
    finally:
        shutil.rmtree(d, ignore_errors=True)
    return rec


def sig_of(rec, meta):
    names = [META_NAMES[n] for n, _ in meta]
    return {"nfeatures": len(rec["fc"]["features"]),
            "hostile_member_name": any(('"' in n or "\\" in n) for n in names),
            "member_named_like_a_column": "u" in names,
            "null_geometry": any(f["g"] == 0 for f in rec["fc"]["features"])}


def run(ctx):
    from props import frames
    quick = ctx.tier == "quick"
    r = ctx.model_check("GeoJSONMC", cfg_text=frames.mc_cfg({"MaxFeatures": 2, "Emit": True}), timeout=3000)
    fcs = [j for j in r.json_lines if "features" in j]
    rng = ctx.rng
    chosen = [f for f in fcs if len(f["features"]) <= 1] + rng.sample(fcs, 2500 if quick else len(fcs))
    # the collection without features several times more, always with further top-level members
    empties = [f for f in fcs if not f["features"]][:1] * 6
    records, metas = [], []
    for n_, afc in enumerate(empties + chosen):
        k = rng.randint(1, 3) if n_ < len(empties) else rng.randint(0, 3)
        names = rng.sample(range(len(META_NAMES)), k)
        meta = [(n, rng.randrange(len(META_VALS))) for n in names]
        wkind = rng.choice(["float", "bool"])
        # a third feature now and then (heterogeneous sets over three features)
        if rng.random() < 0.3 and afc["features"]:
            afc = {"features": afc["features"] + [rng.choice(fcs)["features"][0] if rng.choice(fcs)["features"] else afc["features"][0]]}
        rec = execute(afc, meta, wkind, rng.choice(["default", None, 0, 2, 4]), rng.choice(["", "", ".gz"]))
        records.append(rec)
        metas.append(meta)
        ctx.count((json.dumps(afc, sort_keys=True), json.dumps(meta), wkind), len(afc["features"]) >= 2)
    bad = ctx.validate("GeoJSONTrace", records)
    for i, clause in bad:
        ctx.fail(clause.split(":raised")[0] if ":raised" in clause else clause, dict(sig_of(records[i], metas[i]), detail=clause), {"rec": records[i], "meta": metas[i]})
    for i in range(0, len(records), max(1, len(records) // 5)):
        ctx.sample(records[i])
    ctx.exhaustive = not quick
    ctx.rule = ("every feature collection of <= 2 features x 3 property keys x {absent, null, v1, v2} x 3 geometries (incl. null) enumerated by "
                "TLC (GeoJSONMC); %s, each with 0-3 extra top-level members drawn from 7 names (quote, backslash, non-ASCII, a name equal to "
                "a column) x 7 JSON values, float or bool third key, indent in {default, None, 0, 2, 4}, plain or .gz; file dumped by "
                "json.dump, read, written, parsed back with json.load, re-read. non-trivial = >= 2 features"
                % ("a seeded subset" if quick else "all"))
    ctx.assumptions += ["JSON validity is judged by json.load; empty-string properties are not generated (they are the missing value of string columns)",
                        "column order and dtypes are free; 1 vs 1.0 compared with =="]


def replay(ctx, rp):
    for case in rp["cases"]:
        r0 = case["rec"]
        meta = [tuple(m) for m in case["meta"]]
        rec = execute({"features": r0["fc"]["features"]}, meta, "float", "default", "")
        bad = ctx.validate("GeoJSONTrace", [rec])
        for _, clause in bad:
            ctx.fail(clause, dict(sig_of(rec, meta), detail=clause), {"rec": rec, "meta": case["meta"]})
        print("replayed", len(r0["fc"]["features"]), "features, meta", meta, "->", [c for _, c in bad] or "accepted", rec["err"])
