"""Beyond the listed properties: DataFrame.compare (Compare.tla, stated with the join operators of C05).
Run as a section of C05's check; findings are NOTEs, counted in the evidence under "neighbourhood"."""
from harness import gamma
from harness.gamma import NA

PALS = [gamma.FLOAT_INF, gamma.STR_SHORT, gamma.DATE, gamma.INT_SMALL]


def frame_abs(keys, vals):
    return {"cols": ["k", "j"], "cell": {"k": list(keys), "j": list(vals)}}


def observe(d, pk, pj):
    if d is None:
        return {"cols": ["k", "j"], "cell": {"k": [], "j": []}}, True
    return {"cols": list(d.keys()), "cell": {"k": pk.alpha_seq(d["k"]), "j": pj.alpha_seq(d["j"])}}, False


def execute(X, Y, pk, pj):
    import dataiter as di
    rec = {"X": X, "Y": Y, "err": "", "added": frame_abs([], []), "addedNone": True, "removed": frame_abs([], []),
           "removedNone": True, "changed": [], "changedNone": True}
    try:
        dx = di.DataFrame(k=pk.vector(X["cell"]["k"], typed=True), j=pj.vector(X["cell"]["j"], typed=True))
        dy = di.DataFrame(k=pk.vector(Y["cell"]["k"], typed=True), j=pj.vector(Y["cell"]["j"], typed=True))
        added, removed, changed = dx.compare(dy, "k")
        rec["added"], rec["addedNone"] = observe(added, pk, pj)
        rec["removed"], rec["removedNone"] = observe(removed, pk, pj)
        if changed is not None:
            rec["changedNone"] = False
            ks = pk.alpha_seq(changed["k"])
            xs = pj.alpha_seq(changed["xvalue"])
            ys = pj.alpha_seq(changed["yvalue"])
            rec["changed"] = [{"k": a, "x": b, "y": c} for a, b, c in zip(ks, xs, ys)]
            if list(changed["column"]) != ["j"] * len(ks):
                rec["changed"].append({"k": gamma.ALIEN, "x": gamma.ALIEN, "y": gamma.ALIEN})
    except Exception as e:
        rec["err"] = type(e).__name__ + ": " + str(e)[:80]
    return rec


def run_section(ctx):
    quick = ctx.tier == "quick"
    ctx.model_check("CompareMC", cfg_text="INIT Init\nNEXT Next\nINVARIANT Inv\nCONSTANTS\n MaxRows = 2\n PosCells = {0, 2, 3}\n")
    rng = ctx.rng
    records, meta = [], []
    for _ in range(500 if quick else 6000):
        pk, pj = rng.choice(PALS), rng.choice(PALS)
        kcells = [c for c in (NA, 0, 2, 4, 6) if pk.supports([c])]
        jcells = [c for c in (NA, 0, 2, 3, 4) if pj.supports([c])]
        if pk.kind == "int":
            kcells = [c for c in kcells if c != NA]
        if pj.kind == "int":
            jcells = [c for c in jcells if c != NA]

        def side():
            n = rng.randint(0, 4)
            ks = rng.sample(kcells, min(n, len(kcells))) if rng.random() < 0.9 else [rng.choice(kcells) for _ in range(n)]
            return frame_abs(ks, [rng.choice(jcells) for _ in ks])
        X, Y = side(), side()
        if rng.random() < 0.3:
            Y = frame_abs(list(X["cell"]["k"]), [rng.choice(jcells) for _ in X["cell"]["k"]])
        records.append(execute(X, Y, pk, pj))
        meta.append((pk.name, pj.name))
    bad = ctx.validate("CompareTrace", records)
    seen = {}
    for i, clause in bad:
        seen.setdefault((clause, meta[i]), records[i])
    for (clause, m), rec in sorted(seen.items(), key=str)[:10]:
        ctx.notes.append("outside-listed-properties Compare %s palettes=%s example=%s" % (clause, m, rec))
    ctx.extra["neighbourhood"] = {"spec": "Compare", "calls": len(records), "rejected": len(bad),
                                  "rejected_clauses": sorted({c for _, c in bad})}
