"""C16 - ListOfDicts joins and aggregation follow first-match / partition rules."""
import copy
import io
import contextlib
import itertools
import json

from props.c15 import to_abs, to_py, observe_cls

KINDS = ["left", "inner", "semi", "anti", "full"]


def y(i):
    return -1 if i == 2 else i


def litems(s):
    return [{"lt": i, "k": s["k"][i], "j": s["j"][i]} for i in range(len(s["k"]))]


def ritems(s, by, bare=0):
    """bare=1: every right item holds nothing but its join keys (a plain lookup list);
    bare=2: only the first right item of each key value does."""
    out = []
    seen = set()
    for i in range(len(s["k"])):
        it = {"rt": i, "k": s["k"][i], "y": y(i + 1)}
        if len(by) == 2:
            it["j"] = s["j"][i]
        key = tuple(it[c] for c in by)
        if bare == 1 or (bare == 2 and key not in seen):
            it = {c: it[c] for c in by}
        seen.add(key)
        out.append(it)
    return out


def execute(L, R, a):
    import dataiter as di
    rec = {"L": L, "R": R, "a": a, "out": [], "cls": False, "err": ""}
    rec2 = None
    try:
        rn = {"k": "kk", "j": "jj"} if a["renamed"] else {}
        dl = di.ListOfDicts([to_py(x) for x in L])
        dr = di.ListOfDicts([{rn.get(k, k): v for k, v in to_py(x).items()} for x in R])
        by = [(c, rn[c]) if a["renamed"] else c for c in a["by"]]
        with contextlib.redirect_stdout(io.StringIO()):
            out = getattr(dl, a["kind"] + "_join")(dr, *by)
        rec["cls"] = observe_cls(out)
        items = []
        for x in out:
            d = to_abs(x)
            for new, old in (("k", "kk"), ("j", "jj")):
                # a right-only item of a renamed join carries its key under the right-hand name
                if a["renamed"] and old in d and new not in d:
                    d[new] = d.pop(old)
            items.append(d)
        rec["out"] = items
        back = {v: k for k, v in rn.items()}
        rec2 = {"L": L, "R": R, "a": dict(a, kind="right_unchanged"), "cls": True, "err": "",
                "out": [{back.get(k, k): v for k, v in to_abs(x).items()} for x in dr]}
    except Exception as e:
        rec["err"] = type(e).__name__ + ": " + str(e)[:100]
    return rec, rec2


def _tuple_keys(d, by):
    """Concretisation of group-key values as tuples: v -> (2020, v); a missing key stays None."""
    return {k: ((2020, v) if (k in by and v is not None) else v) for k, v in d.items()}


def _untuple(v):
    return v[1] if isinstance(v, tuple) and len(v) == 2 and v[0] == 2020 else v


def execute_agg(L, by, hseed=None, tup=False):
    """With rng: a history on one grouped object - aggregate, change group membership in place without changing
    the length (edit a key, replace an item, reverse), aggregate again; the second result is judged on the items
    as they are now."""
    import dataiter as di
    rec = {"L": L, "R": [], "a": {"kind": "aggregate", "by": by}, "out": [], "cls": True, "err": "", "keys": [], "groups": []}
    import random
    rng = None if hseed is None else random.Random(hseed)
    if rng is not None:
        rec["history"] = {"L0": L, "seed": hseed}
    try:
        dl = di.ListOfDicts([(_tuple_keys(to_py(x), by) if tup else to_py(x)) for x in L])
        if tup:
            rec["a"] = dict(rec["a"], key_values="tuples")
        if rng is not None and len(dl):
            g = dl.group_by(*by)
            g.aggregate(n=len)
            for _ in range(rng.randint(1, 2)):
                i = rng.randrange(len(g))
                how = rng.choice(["key", "item", "reverse"])
                if how == "key":
                    list.__getitem__(g, i)[rng.choice(by)] = rng.choice([None, 0, 1])
                elif how == "item":
                    cur = dict(list.__getitem__(g, i))
                    cur[rng.choice(by)] = rng.choice([None, 0, 1])
                    g[i] = cur
                else:
                    list.reverse(g)
            rec["L"] = L = [to_abs(x) for x in list.__iter__(g)]
            rec["a"] = {"kind": "aggregate", "by": by, "after": "aggregate-then-in-place-change"}
            dl = g
        out = dl.group_by(*by).aggregate(n=len, ids=lambda g: [x.lt for x in g]) if "after" not in rec["a"] else \
            dl.aggregate(n=len, ids=lambda g: [x.lt for x in g])
        rec["cls"] = observe_cls(out) and all(x["n"] == len(x["ids"]) for x in out)
        rec["keys"] = [[-1 if x[c] is None else _untuple(x[c]) for c in by] for x in out]
        rec["groups"] = [list(x["ids"]) for x in out]
    except Exception as e:
        rec["err"] = type(e).__name__ + ": " + str(e)[:100]
    return rec


def execute_split(L, by):
    import dataiter as di
    rec = {"L": L, "R": [], "a": {"kind": "split", "by": by}, "out": [], "cls": True, "err": "", "keys": [], "groups": []}
    try:
        out = di.ListOfDicts([to_py(x) for x in L]).split(*by)
        rec["groups"] = [[int(i) for i in g] for g in out]
    except Exception as e:
        rec["err"] = type(e).__name__ + ": " + str(e)[:100]
    return rec


def sig_of(rec):
    a = rec["a"]
    return {"kind": a["kind"], "nby": len(a["by"]), "renamed": a.get("renamed", False), "after": a.get("after", ""),
            "left_empty": len(rec["L"]) == 0, "right_empty": len(rec["R"]) == 0}


def run(ctx):
    from props import frames
    quick = ctx.tier == "quick"
    consts = {"MaxL": 2, "MaxR": 3, "Emit": True} if quick else {"MaxL": 3, "MaxR": 3, "Emit": True}
    r = ctx.model_check("LoDJoinMC", cfg_text=frames.mc_cfg(consts), timeout=3400, heap="12g")

    def side(kind):
        ss = sorted({(tuple(j["k"]), tuple(j["j"])) for j in r.json_lines if j.get("kind") == kind})
        return [{"k": list(k), "j": list(j)} for k, j in ss]
    lefts, rights = side("L"), side("R")
    rng = ctx.rng
    pairs = list(itertools.product([s for s in rights if len(s["k"]) <= 1], repeat=2))
    pairs += [(rng.choice(rights), rng.choice(rights)) for _ in range(3000 if quick else 40000)]
    records = []
    count = {}
    for l, rr in pairs:
        by = rng.choice([["k"], ["k", "j"]])
        renamed = rng.random() < 0.4
        bare = rng.choice([0, 0, 0, 1, 2])
        L, R = litems(l), ritems(rr, by, bare)
        for kind in (KINDS if bare == 0 else KINDS[:4]):
            rec, rec2 = execute(L, R, {"kind": kind, "by": by, "renamed": renamed})
            records.append(rec)
            if rec2:
                records.append(rec2)
            count[kind] = count.get(kind, 0) + 1
            ctx.count((json.dumps(L), json.dumps(R), kind, renamed), len(R) >= 2)
    for l in rights:
        for by in (["k"], ["j"], ["k", "j"], ["j", "k"]):
            records.append(execute_agg(litems(l), by, tup=rng.random() < 0.4))
            records.append(execute_agg(litems(l), by, rng.randrange(10**6)))
            records.append(execute_split(litems(l), by))
            count["aggregate"] = count.get("aggregate", 0) + 2
            ctx.count((json.dumps(l), "agg", tuple(by)), len(l["k"]) >= 2)
    bad = ctx.validate("LoDJoinTrace", records)
    outside = {}
    for i, clause in bad:
        if clause.startswith("split:"):
            outside.setdefault(clause, records[i])      # split is specified (LoDJoin) but not named by the property: a NOTE
            continue
        ctx.fail(clause, sig_of(records[i]), {"rec": records[i]})
    for clause, rec in sorted(outside.items()):
        ctx.notes.append("outside-listed-properties LoDJoin %s example=%s" % (clause, {k: rec[k] for k in ("L", "a", "groups", "err")}))
    for i in range(0, len(records), max(1, len(records) // 6)):
        ctx.sample(records[i])
    ctx.extra["calls_per_kind"] = count
    ctx.exhaustive = False
    ctx.rule = ("TLC (LoDJoinMC) enumerates all pairs of lists (<= MaxL x MaxR items, key values None/0/1, duplicate and None keys) with "
                "1- and 2-key tuples and model-checks the join relations on the whole product; seeded pairs (plus all empty/single "
                "combinations) are executed with the five joins, same-name and renamed keys, each followed by a right-operand-unchanged "
                "observation; aggregate (len + tag-recording function) on every list x 4 key tuples. non-trivial = right side >= 2 items")
    ctx.assumptions += ["which side wins for a non-key field present on both sides is a free point (not generated)",
                        "a right-only item of a renamed full_join may carry its key under the right-hand name"]


def replay(ctx, rp):
    for case in rp["cases"]:
        rec0 = case["rec"]
        if rec0["a"]["kind"] == "split":
            recs = [execute_split(rec0["L"], rec0["a"]["by"])]
        elif rec0["a"]["kind"] == "aggregate":
            h = rec0.get("history")
            recs = [execute_agg(h["L0"], rec0["a"]["by"], h["seed"]) if h else
                    execute_agg(rec0["L"], rec0["a"]["by"], tup=rec0["a"].get("key_values") == "tuples")]
        else:
            a = dict(rec0["a"])
            if a["kind"] == "right_unchanged":
                a["kind"] = "left"
            recs = [x for x in execute(rec0["L"], rec0["R"], a) if x]
        bad = ctx.validate("LoDJoinTrace", recs)
        for i, clause in bad:
            ctx.fail(clause, sig_of(recs[i]), {"rec": recs[i]})
        print("replayed", rec0["a"], "->", [c for _, c in bad] or "accepted", recs[0]["err"])
