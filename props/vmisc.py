"""Beyond the listed properties: Vector head / tail / drop_na / range / equal / concat / tolist / sample / map
(VectorMisc.tla).  Run as a section of C11's check; what it finds is reported as a NOTE (it is not a verdict on
any listed property) and counted in the evidence under "neighbourhood"."""
import numpy as np

from harness import gamma
from harness.gamma import NA


def _mc_cfg(maxlen, cells):
    return ("INIT Init\nNEXT Next\nINVARIANT Inv\nCONSTANTS\n  MaxLen = %d\n  PosCells = {%s}\n" % (maxlen, ", ".join(map(str, cells))))


def execute(pal, op, xs, ys, n):
    import dataiter as di
    rec = {"op": op, "xs": list(xs), "ys": list(ys), "n": n, "out": [], "flag": False, "err": ""}
    try:
        v = pal.vector(xs, typed=True)
        if op == "head":
            rec["out"] = pal.alpha_seq(v.head(n))
        elif op == "tail":
            rec["out"] = pal.alpha_seq(v.tail(n))
        elif op == "drop_na":
            rec["out"] = pal.alpha_seq(v.drop_na())
        elif op == "tolist":
            rec["out"] = [pal.alpha(x) for x in v.tolist()]
        elif op == "concat":
            rec["out"] = pal.alpha_seq(v.concat(pal.vector(ys, typed=True)))
        elif op == "map":
            rec["out"] = pal.alpha_seq(v.map(lambda x: x, dtype=v.dtype))
        elif op == "sample":
            rec["out"] = pal.alpha_seq(v.sample(n))
        elif op == "range":
            rec["out"] = pal.alpha_seq(v.range())
        elif op == "equal":
            rec["flag"] = bool(v.equal(pal.vector(ys, typed=True)))
    except Exception as e:
        rec["err"] = type(e).__name__ + ": " + str(e)[:80]
    return rec


def run_section(ctx, seqs):
    quick = ctx.tier == "quick"
    ctx.model_check("VectorMiscMC", cfg_text=_mc_cfg(3, [0, 2, 3, 4]))
    rng = ctx.rng
    pals = [p for p in gamma.ALL]
    records, meta = [], []
    seqs = [s for s in seqs if len(s) <= (3 if quick else 4)]
    for xs in seqs:
        for pal in (rng.sample(pals, 4) if quick else pals):
            if not pal.supports(xs):
                continue
            n = rng.randint(0, len(xs) + 1)
            ys = rng.choice(seqs)
            if rng.random() < 0.5:
                # a second operand that is equal up to representation (twins) or differs at one position
                ys = list(xs)
                if ys and rng.random() < 0.5:
                    j = rng.randrange(len(ys))
                    ys[j] = rng.choice([NA, 0, 2, 4])
            if not pal.supports(ys):
                ys = list(xs)
            ops = ["head", "tail", "drop_na", "tolist", "concat", "map", "sample", "equal"]
            if pal.orderable and pal.kind in ("float", "int", "date", "datetime", "timedelta"):
                ops.append("range")
            for op in ops:
                if op == "range" and pal.kind == "int" and NA in xs:
                    continue
                records.append(execute(pal, op, xs, ys, n))
                meta.append(pal)
    bad = ctx.validate("VectorMiscTrace", records)
    seen = {}
    for i, clause in bad:
        key = (clause, meta[i].name)
        if key not in seen:
            seen[key] = records[i]
    for (clause, pname), rec in sorted(seen.items())[:12]:
        ctx.notes.append("outside-listed-properties VectorMisc %s palette=%s example=%s" % (clause, pname, {k: rec[k] for k in ("op", "xs", "ys", "n", "out", "flag", "err")}))
    ctx.extra["neighbourhood"] = {"spec": "VectorMisc", "calls": len(records), "rejected": len(bad),
                                  "rejected_clauses": sorted({c for _, c in bad})}
