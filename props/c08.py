"""C08 - Numba acceleration never changes aggregation results, whatever was compiled before."""
import concurrent.futures
import json
import math
import os
import shutil
import subprocess
import sys
import tempfile

HELPERS = ["all", "any", "count", "count_unique", "first", "last", "max", "mean", "median", "min", "mode", "nth",
           "quantile", "std", "sum", "var"]
KINDS = ["bool", "int", "float", "date", "datetime"]
OPTIONAL = {"max", "min", "mode", "first", "last", "nth"}
SLIM = ("h", "kind", "eq", "sametype", "err", "status", "predicted", "broken", "eq2", "sametype2")
VERIF = os.path.dirname(os.path.dirname(os.path.abspath(__file__)))


def cls(h):
    return "optional-generic" if h in ("max", "min") else "mode" if h == "mode" else "nth" if h in ("first", "last", "nth") else "other"


def run_history(hist, rng_seed):
    """hist: list of events from AggJitMC (+ 'layout' and 'a' on calls).  Returns the executed call records."""
    d = tempfile.mkdtemp(prefix="verif-jit-")
    recs = []
    try:
        segs, cur, cache = [], [], True
        for e in hist:
            if e["t"] == "proc":
                if cur:
                    segs.append((cache, cur))
                cur, cache = [], e["cache"]
            elif e["t"] == "call":
                cur.append(e)
        if cur:
            segs.append((cache, cur))
        pos = 0
        for si, (cache, calls) in enumerate(segs):
            f = os.path.join(d, "calls%d.json" % si)
            json.dump(calls, open(f, "w"))
            env = dict(os.environ, DATAITER_USE_NUMBA="true", DATAITER_USE_NUMBA_CACHE="true" if cache else "false",
                       NUMBA_CACHE_DIR=os.path.join(d, "cache"), PYTHONHASHSEED="0", PYTHONDONTWRITEBYTECODE="1")
            p = subprocess.run(["/venv/bin/python", os.path.join(VERIF, "harness", "jit_runner.py"), f], env=env, cwd=d,
                               stdout=subprocess.PIPE, stderr=subprocess.PIPE, text=True, timeout=600)
            outs = [json.loads(l[7:]) for l in p.stdout.splitlines() if l.startswith("RESULT ")]
            for i, c in enumerate(calls):
                o = outs[i] if i < len(outs) else {"err": "runner died: " + p.stderr[-200:], "numba": [], "python": [],
                                                  "tn": "", "tp": "", "status": ""}
                recs.append((c, o, si))
    finally:
        shutil.rmtree(d, ignore_errors=True)
    return recs


def same(a, b, rel=1e-9):
    if a is None or b is None:
        return a is None and b is None
    if isinstance(a, bool) or isinstance(b, bool):
        return bool(a) == bool(b) and isinstance(a, (bool, int)) and isinstance(b, (bool, int))
    if isinstance(a, (int, float)) and isinstance(b, (int, float)):
        return math.isclose(a, b, rel_tol=rel, abs_tol=1e-12)
    return a == b


def to_record(hist, idx, c, o, si):
    n, p = o["numba"], o["python"]
    rel = 1e-5 if c["kind"] == "float32" else 1e-9      # single precision: the two paths may accumulate in different widths
    eq = [len(n) == len(p)] + [same(x, y, rel) for x, y in zip(n, p)]
    n2, p2 = o.get("numba2", []), o.get("python2", [])
    eq2 = [len(n2) == len(p2)] + [same(x, y, rel) for x, y in zip(n2, p2)]
    earlier = [e for e in hist[:idx] if e["t"] == "call"]
    return {"h": c["h"], "h2": c.get("h2", ""), "eq2": eq2, "sametype2": o.get("tn2", "") == o.get("tp2", ""),
            "numba2": n2, "python2": p2, "broken2": bool(c.get("broken2", False)),
            "kind": c["kind"], "a": c["a"], "layout": c["layout"], "eq": eq, "sametype": o["tn"] == o["tp"],
            "err": o["err"], "status": o["status"], "predicted": c["status"], "broken": bool(c.get("broken", False)),
            "numba": n, "python": p, "tn": o["tn"], "tp": o["tp"],
            "earlier": [[e["h"], e["kind"]] for e in earlier], "segment": si,
            "hist": [{k: v for k, v in e.items()} for e in hist]}


def sig_of(rec):
    earlier_same_kind = [h for h, k in rec["earlier"] if k == rec["kind"]]
    return {"h": rec["h"], "class": cls(rec["h"]), "kind": rec["kind"], "h2": rec.get("h2", ""),
            "second_predicted_broken_by_jit_model": rec.get("broken2", False),
            # named trigger of KF-C08-optional-order: AggJit.tla's damage model (Broken) predicted this call
            "predicted_broken_by_jit_model": rec["broken"],
            "max_or_min_called_earlier_for_kind": any(h in ("max", "min") for h in earlier_same_kind)}


def consistent_with_dispatch(rng, e):
    """Arguments that realise the model's dispatch flag e.py (AggJit.tla IsPy): std/var take the Python path iff
    ddof # 0; median iff it keeps the missing values of a column that holds some."""
    from harness import jit_runner
    py = bool(e.get("py", False))
    hs = {e["h"], e.get("h2", "")}
    if hs & {"std", "var"}:
        e["a"]["ddof"] = rng.choice([1, 2]) if py else 0
    if "median" in hs:
        has_na = [i for i, (g, xs) in enumerate(jit_runner.LAYOUTS) if jit_runner.NAV in xs]
        if py:
            e["a"]["dropna"] = False
            if e["layout"] not in has_na:
                e["layout"] = rng.choice(has_na)
        elif e["layout"] in has_na and e["kind"] == "float":
            e["a"]["dropna"] = True


def gen_histories(ctx, helpers, kinds, maxcalls, maxprocs, two=False):
    cfg = ("INIT Init\nNEXT Next\nINVARIANT Inv\nCONSTANTS\n MaxCalls = %d\n MaxProcs = %d\n Emit = TRUE\n Helpers = {%s}\n Kinds = {%s}\n TwoHelperCalls = %s\n"
           % (maxcalls, maxprocs, ", ".join('"%s"' % h for h in helpers), ", ".join('"%s"' % k for k in kinds), "TRUE" if two else "FALSE"))
    out = []
    for init in ("Init", "InitOff"):
        r = ctx.model_check("AggJitMC", cfg_text=cfg.replace("INIT Init", "INIT " + init), timeout=1800)
        out += [j["hist"] for j in r.json_lines if "hist" in j]
    return out


def run(ctx):
    quick = ctx.tier == "quick"
    rng = ctx.rng
    # TLC enumerates the whole history space of the bound; a stratified seeded subset is executed
    hists = gen_histories(ctx, HELPERS, ["float", "int"] if quick else ["float", "int", "date"], 2, 2)
    ctx.extra["histories_enumerated"] = len(hists)
    by_class = {}
    for h in (hists if not quick else rng.sample(hists, 2500)):
        calls = [e for e in h if e["t"] == "call"]
        key = (tuple(cls(e["h"]) for e in calls), tuple(e["cache"] for e in h if e["t"] == "proc"), len(calls))
        by_class.setdefault(key, []).append(h)
    chosen = []
    keys = sorted(by_class)
    if quick:
        keys = rng.sample(keys, min(len(keys), 45))       # the thorough tier takes every stratum
    for key in keys:
        pool = by_class[key]
        k = 1 if quick else 4
        chosen += rng.sample(pool, min(k, len(pool)))
    # every ordered pair of distinct helpers on one kind in one process with the cache on: the first-use orders proper
    def single_proc_pair(h):
        calls = [e for e in h if e["t"] == "call"]
        return (len(calls) == 2 and sum(1 for e in h if e["t"] == "proc") == 1 and h[0]["cache"]
                and calls[0]["kind"] == calls[1]["kind"] and calls[0]["h"] != calls[1]["h"])
    pairs = [h for h in hists if single_proc_pair(h)]
    pairs = rng.sample(pairs, min(len(pairs), 10 if quick else 700))
    chosen += pairs
    # three calls over kernel-class representatives, up to three processes (cache shared / off)
    hists3 = gen_histories(ctx, ["max", "first", "mode", "mean"], ["float", "int"] if quick else ["float", "date", "bool"], 3, 3)
    ctx.extra["histories_enumerated_3calls"] = len(hists3)
    three = [h for h in hists3 if sum(1 for e in h if e["t"] == "call") == 3]
    chosen += rng.sample(three, min(len(three), 25 if quick else 400))
    # one aggregate() call carrying two helpers on the same column, every ordered pair (single call, single process)
    hists2 = gen_histories(ctx, HELPERS, ["float", "date"] if quick else ["float", "int", "date", "bool"], 1, 1, two=True)
    two = [h for h in hists2 if any(e["t"] == "call" and e.get("h2") for e in h) and h[0]["cache"]]
    ctx.extra["histories_enumerated_two_helper_calls"] = len(two)
    # stratified: every ordered pair of distinct kernels at least once (these are first-use orders as well)
    kern = lambda h: "generic:" + h if h in ("all", "any", "count", "max", "mean", "median", "min", "std", "sum", "var") else \
        ("nth" if h in ("first", "last", "nth") else h)
    strata = {}
    for h in two:
        c = [e for e in h if e["t"] == "call"][0]
        strata.setdefault((kern(c["h"]), kern(c["h2"])), []).append(h)
    for key in sorted(strata):
        chosen += rng.sample(strata[key], min(len(strata[key]), 1 if quick else 4))
    chosen = [json.loads(json.dumps(h)) for h in chosen]
    # record -> validate: the full helper x data-layout matrix in one interpreter per column type (every kernel compiled
    # once; first/last/nth/mode run before max/min so that the recorded order defect does not mask anything)
    order = ["first", "last", "nth", "mode"] + [h for h in HELPERS if h not in ("first", "last", "nth", "mode", "max", "min")] + ["max", "min"]
    matrix = []
    for kind in (["float", "date", "float32", "timedelta"] if quick else KINDS + ["float32", "timedelta"]):
        hist = [{"t": "proc", "cache": True}]
        for h in order:
            if kind in ("date", "datetime", "timedelta") and h not in ("count", "count_unique", "first", "last", "nth", "mode", "min", "max"):
                continue
            for layout in range(9):
                hist.append({"t": "call", "h": h, "kind": kind, "status": "", "broken": False, "layout": layout, "h2": "",
                             "a": {"dropna": rng.choice([True, False]), "idx": rng.choice([0, 1, -1, 5]), "q4": rng.choice([1, 2, 3]),
                                   "ddof": rng.choice([0, 1, 2])}, "big": layout % 2 == 1})
        # larger random groups (16..40 rows, few distinct values => ties, interleaved) for the order / sort sensitive helpers
        for h in ("mode", "first", "last", "nth", "count_unique", "median", "quantile"):
            if kind in ("date", "datetime", "timedelta") and h in ("median", "quantile"):
                continue
            for _ in range(6 if quick else 30):
                n1, n2 = rng.randint(16, 40), rng.randint(1, 5)
                xs = [rng.randrange(4) for _ in range(n1 + n2)]
                hist.append({"t": "call", "h": h, "kind": kind, "status": "", "broken": False, "layout": -1, "h2": "",
                             "data": [[0] * n1 + [1] * n2, xs],
                             "a": {"dropna": rng.choice([True, False]), "idx": rng.choice([0, 1, -1, 5]), "q4": rng.choice([1, 2, 3])}})
        matrix.append(hist)
    # two-helper calls are repeated over the data layouts whose groups are unsorted / tied / hold missing values
    # (same kernels, no further compilation): what one helper does to the shared working column shows in the other
    expanded = []
    for h in chosen:
        if any(e["t"] == "call" and e.get("h2") for e in h):
            h2 = []
            for e in h:
                h2.append(e)
                if e["t"] == "call":
                    for lay in (3, 4, 5, 6, 8):
                        h2.append(dict(e, status="", layout_fixed=lay))
            h = h2
        expanded.append(h)
    chosen = expanded
    for h in chosen:
        for e in h:
            if e["t"] == "call":
                e["layout"] = e.pop("layout_fixed") if "layout_fixed" in e else rng.randrange(9)
                e["a"] = {"dropna": rng.choice([True, False]), "idx": rng.choice([0, 1, -1, 5]), "q4": rng.choice([1, 2, 3]),
                          "ddof": rng.choice([0, 0, 1, 2])}
                e["big"] = rng.random() < 0.25
                consistent_with_dispatch(rng, e)
    records = []
    with concurrent.futures.ThreadPoolExecutor(16) as ex:
        futs = {ex.submit(run_history, h, ctx.seed): h for h in matrix + chosen}
        for f in concurrent.futures.as_completed(futs):
            h = futs[f]
            res = f.result()
            idxs = [i for i, e in enumerate(h) if e["t"] == "call"]
            for (c, o, si), idx in zip(res, idxs):
                records.append(to_record(h, idx, c, o, si))
    records.sort(key=lambda r: json.dumps(r["hist"]) + r["h"])
    slim = [{k: r[k] for k in SLIM} for r in records]
    bad = ctx_validate(ctx, slim)
    for i, clause in bad:
        ctx.fail(clause, sig_of(records[i]), {"rec": records[i]})
    ran = sum(1 for r in records if r["err"] == "" and r["status"] in ("compiled", "loaded"))
    ctx.extra["calls_executed"] = len(records)
    ctx.extra["calls_whose_kernel_was_compiled_or_loaded_under_numba"] = ran
    ctx.extra["histories_executed"] = len(chosen)
    ctx.evaluations = len(records)
    for r in records:
        if len(r["earlier"]) >= 1:
            ctx.nontrivial.add(json.dumps([r["earlier"], r["h"], r["kind"], r["segment"]]))
    for r in records[:: max(1, len(records) // 5)][:5]:
        ctx.sample({k: r[k] for k in ("hist", "h", "kind", "a", "numba", "python", "status", "predicted")})
    ctx.exhaustive = False
    ctx.rule = ("AggJitMC enumerates every history of <= 2 calls over 16 helpers x kinds with 1-2 processes and the cache on/off "
                "(%d histories); one history per (kernel-class order, cache setting) stratum, %d single-process ordered helper pairs and seeded 3-call / 3-process histories are run in fresh "
                "interpreters with a private NUMBA_CACHE_DIR per history; every call is executed with USE_NUMBA on and off in the same "
                "interpreter on identical data (groups with NA first/last/all, single-element groups) and compared per group. "
                "non-trivial = distinct (earlier calls, call) contexts with at least one earlier call" % (len(hists), len(pairs)))
    ctx.assumptions += ["floating point: isclose(rel 1e-9; 1e-5 for float32 columns); missing positions must coincide; result dtype kind must coincide",
                        "kernel compile/load/reuse status is read from numba dispatcher statistics (layer 2, NOTE only)"]


def ctx_validate(ctx, slim):
    from harness import tlc as _tlc
    d = _tlc.scratch("verif-trace-")
    out = []
    try:
        path = os.path.join(d, "trace.json")
        _tlc.write_json(path, slim)
        r = ctx.tlc("AggJitTrace", env={"TRACE_FILE": path}, cont=True)
        seen = set()
        for b in r.bad:
            if (b["tid"], b["BAD"]) not in seen:
                seen.add((b["tid"], b["BAD"]))
                out.append((b["tid"] - 1, b["BAD"]))
        drift = [j for j in r.json_lines if isinstance(j, dict) and "DRIFT" in j]
        if drift:
            ctx.notes.append("spec-drift mechanism=JitMech: %d calls whose compile/load/reuse status differs from the model's prediction"
                             % len(drift))
        ctx.validated += len(slim)
    finally:
        shutil.rmtree(d, ignore_errors=True)
    return out


def replay(ctx, rp):
    for case in rp["cases"]:
        hist = case["rec"]["hist"]
        res = run_history(hist, 0)
        idxs = [i for i, e in enumerate(hist) if e["t"] == "call"]
        recs = [to_record(hist, idx, c, o, si) for (c, o, si), idx in zip(res, idxs)]
        slim = [{k: r[k] for k in SLIM} for r in recs]
        bad = ctx_validate(ctx, slim)
        for i, clause in bad:
            ctx.fail(clause, sig_of(recs[i]), {"rec": recs[i]})
        print("replayed history", [(e.get("h"), e.get("kind")) if e["t"] == "call" else "proc" for e in hist], "->",
              [c for _, c in bad] or "accepted")
