"""C13 - conversions to ListOfDicts, JSON, pandas and Arrow are invertible."""
import datetime
import json
import math

import numpy as np

from harness import gamma
from harness.gamma import NA, Palette
from props import frames

BOUNDARIES = ["lod", "json", "pandas", "arrow"]
KIND_PALS = {"bool": gamma.BOOL, "int": gamma.Palette("int/conv", "int", [-3, 2**53 + 1, 2**53 + 3, 2**62], has_na=False, full_dtype=int),
             "float": gamma.FLOAT_INF, "str": gamma.STR_SHORT, "str_long": gamma.STR_LONG, "date": gamma.DATE, "datetime": gamma.DATETIME, "datetime_ns": gamma.DATETIME_NS}
DTKIND = {"b": "bool", "i": "int", "u": "int", "f": "float", "T": "str", "U": "str", "M": "date", "O": "obj"}


def kind_of(arr):
    k = DTKIND.get(arr.dtype.kind, arr.dtype.kind)
    if k == "date":
        return "date" if str(arr.dtype) == "datetime64[D]" else "datetime"
    return k


def is_sentinel(v):
    """a non-null value that is really a missing-value sentinel"""
    if v is None:
        return False
    if isinstance(v, str):
        return v == "" or v.lower() in ("nan", "nat", "none")
    if isinstance(v, float):
        return math.isnan(v)
    if isinstance(v, (np.datetime64,)):
        return bool(np.isnat(v))
    return False


def inspect(b, d, cols, inter=None):
    """Observe the intermediate object with the foreign library's own API (inter given: observe that object again)."""
    import pandas as pd
    if b in ("lod", "json"):
        if inter is None:
            inter = d.to_list_of_dicts() if b == "lod" else json.loads(d.to_json())
        recs = [dict(x) for x in inter]
        fields = list(recs[0].keys()) if recs else []
        same = all(list(r.keys()) == fields for r in recs)
        null = {c: [r.get(c, "ABSENT") is None for r in recs] for c in cols}
        sent = {c: [is_sentinel(r.get(c)) for r in recs] for c in cols}
        return {"nrec": len(recs), "fields": fields if same else ["RAGGED"], "null": null, "sentinel": sent}, inter
    if b == "pandas":
        p = d.to_pandas() if inter is None else inter
        null = {c: [bool(x) for x in pd.isna(p[c]).tolist()] for c in cols if c in p}
        sent = {c: [(not n) and is_sentinel(v) for v, n in zip(p[c].tolist(), null[c])] for c in cols if c in p}
        return {"nrec": int(p.shape[0]), "fields": [str(c) for c in p.columns], "null": null, "sentinel": sent}, p
    t = d.to_arrow() if inter is None else inter
    null = {c: t.column(c).is_null().to_pylist() for c in cols if c in t.column_names}
    sent = {c: [(not n) and is_sentinel(v) for v, n in zip(t.column(c).to_pylist(), null[c])] for c in cols if c in t.column_names}
    return {"nrec": t.num_rows, "fields": list(t.column_names), "null": null, "sentinel": sent}, t


def back_from(b, inter):
    import dataiter as di
    if b == "lod":
        return inter.to_data_frame()
    if b == "json":
        return di.DataFrame.from_json(json.dumps(inter))
    if b == "pandas":
        return di.DataFrame.from_pandas(inter)
    return di.DataFrame.from_arrow(inter)


def execute(fr, kinds, b):
    import dataiter as di
    pals = {c: KIND_PALS[kinds[c]] for c in fr["cols"]}
    rec = {"fr": fr, "b": b, "kinds": {c: kinds[c].replace("_long", "").replace("_ns", "") for c in kinds}, "err": "",
           "inter": {"nrec": -1, "fields": [], "null": {}, "sentinel": {}}, "back": {"cols": [], "cell": {}}, "kinds_back": {}}
    try:
        d = frames.build(fr, pals)
        rec["kinds"] = {c: kind_of(np.asarray(d[c])) for c in fr["cols"]}      # the frame's own kinds (int+NA is float, bool+NA object)
        rec["inter"], inter = inspect(b, d, fr["cols"])
        if b == "json":
            # the JSON text, or (every other time) the already parsed records, which from_json accepts as well
            d2 = di.DataFrame.from_json(d.to_json()) if len(fr["cell"][fr["cols"][0]]) % 2 else di.DataFrame.from_json(inter)
        else:
            d2 = back_from(b, inter)
        rec["kept"] = json.dumps(inspect(b, d, fr["cols"], inter)[0], sort_keys=True, default=str) == json.dumps(rec["inter"], sort_keys=True, default=str)
        obs_pals = dict(pals)
        if b == "json":
            for c in fr["cols"]:      # dates cross JSON as ISO text (free point): read them back as such
                if kinds[c] in ("date", "datetime", "datetime_ns"):
                    src = pals[c]
                    obs_pals[c] = Palette(src.name + "->iso", "str", [str(np.datetime64(v, "D" if kinds[c] == "date" else "us")).replace("T", " ")
                                                                      if kinds[c] != "date" else v.isoformat() for v in src.values], na="")
        rec["back"] = frames.observe(d2, obs_pals)
        if b == "json":
            for c in fr["cols"]:
                if kinds[c] in ("datetime", "datetime_ns") and c in rec["back"]["cell"]:
                    # any ISO rendering of the same instant is the same value
                    vals = [str(x) for x in np.asarray(d2[c]).tolist()]
                    src = pals[c]
                    iso = [np.datetime64(v, "us") for v in src.values]
                    cells = []
                    for s in np.asarray(d2[c]).tolist():
                        if s in (None, ""):
                            cells.append(NA)
                            continue
                        try:
                            t = np.datetime64(str(s).replace(" ", "T"), "us")
                            cells.append(2 * iso.index(t) if t in iso else gamma.ALIEN)
                        except Exception:
                            cells.append(gamma.ALIEN)
                    rec["back"]["cell"][c] = cells
        rec["kinds_back"] = {c: kind_of(np.asarray(d2[c])) for c in d2.keys()}
        for c in fr["cols"]:
            rec["kinds_back"].setdefault(c, "absent")
    except Exception as e:
        rec["err"] = type(e).__name__ + ": " + str(e)[:90]
    return rec


def sig_of(rec):
    fr = rec["fr"]
    return {"b": rec["b"], "kinds": sorted(set(rec["kinds"].values())),
            "first_missing": any(fr["cell"][c] and fr["cell"][c][0] == NA for c in fr["cols"]),
            "all_missing_column": any(all(x == NA for x in fr["cell"][c]) for c in fr["cols"])}


def run(ctx):
    quick = ctx.tier == "quick"
    r = ctx.model_check("ConvertMC", cfg_text=frames.mc_cfg({"MaxRows": 3, "PosCells": [0, 2], "Emit": True}), timeout=3000)
    frs = sorted({json.dumps(j["fr"], sort_keys=True) for j in r.json_lines})
    frs = [json.loads(x) for x in frs]
    rng = ctx.rng
    kinds_all = list(KIND_PALS)
    records = []
    for fr in frs:
        for _ in range(1 if quick else 30):
            kinds = {}
            for c in fr["cols"]:
                ok = [k for k in kinds_all if KIND_PALS[k].supports(fr["cell"][c])]
                kinds[c] = rng.choice(ok)
            for b in BOUNDARIES:
                records.append(execute(fr, kinds, b))
                ctx.count((json.dumps(fr, sort_keys=True), json.dumps(kinds, sort_keys=True), b),
                          any(NA in fr["cell"][c] for c in fr["cols"]))
            # the boundary shape "exactly one column": the frame's first column alone (every third frame)
            if len(fr["cols"]) > 1 and rng.random() < 0.34:
                c0 = fr["cols"][0]
                one = {"cols": [c0], "cell": {c0: fr["cell"][c0]}}
                for b in BOUNDARIES:
                    records.append(execute(one, {c0: kinds[c0]}, b))
    bad = ctx.validate("ConvertTrace", records)
    for i, clause in bad:
        ctx.fail(clause.rsplit(":", 1)[0], dict(sig_of(records[i]), detail=clause), {"rec": records[i]})
    for i in range(0, len(records), max(1, len(records) // 6)):
        ctx.sample(records[i])
    ctx.exhaustive = True
    ctx.rule = ("every frame with 2 columns (a third of them also cut to their first column) x 1..3 rows over cells {NA, v1, v2} (all 2^n missing masks incl. leading missing values and "
                "all-missing columns; TLC-enumerated) x %d random kind assignments over bool/int/float/str(short,long)/date/datetime x 4 "
                "boundaries; the intermediate object is inspected with json.loads / pandas.isna / pyarrow is_null / plain dict access; "
                "non-trivial = at least one missing value" % (1 if quick else 6))
    ctx.assumptions += ["dates and datetimes cross JSON as ISO text (their kind and textual form are a free point; the instant is compared)",
                        "kinds of all-missing columns are unconstrained"]


def replay(ctx, rp):
    for case in rp["cases"]:
        r0 = case["rec"]
        kinds = {c: (k if k in KIND_PALS else "float") for c, k in r0["kinds"].items()}
        rec = execute(r0["fr"], case.get("kinds", kinds), r0["b"])
        bad = ctx.validate("ConvertTrace", [rec])
        for _, clause in bad:
            ctx.fail(clause.rsplit(":", 1)[0], dict(sig_of(rec), detail=clause), {"rec": rec})
        print("replayed", r0["b"], "->", [c for _, c in bad] or "accepted", rec["err"])
