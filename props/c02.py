"""C02 - row subsetting returns exactly the selected whole rows, in order.
(also hosts the C03 sort machinery: same machine, Which = "sort")"""
import numpy as np

from harness import gamma
from props import frames

OPS_SUBSET = ["filter", "filter_out", "filter_kv", "filter_out_kv", "slice", "slice_off", "head", "tail",
              "sample", "drop_na", "unique"]


def call(d, a, pals, form="direct"):
    op = a["op"]
    if op in ("filter", "filter_out"):
        mask = np.array(a["mask"], dtype=bool)
        if form == "objmask":           # boolean-valued but not of bool dtype (e.g. a column that held a missing value)
            mask = np.array(a["mask"], dtype=object)
        elif form == "intmask":
            mask = np.array([int(x) for x in a["mask"]])
        elif form == "listmask":
            mask = [bool(x) for x in a["mask"]]
        arg = (lambda x: mask) if form == "callable" else mask
        return getattr(d, op)(arg)
    if op in ("filter_kv", "filter_out_kv"):
        kw = {c: pals[c].value(v) for c, v in a["kv"]}
        return getattr(d, op[:-3])(**kw)
    if op in ("slice", "slice_off"):
        idx = list(a["idx"])
        if form == "range" and idx and idx == list(range(idx[0], idx[-1] + 1)):
            return getattr(d, op)(range(idx[0], idx[-1] + 1))        # the same positions given as a range object
        return getattr(d, op)(idx)
    if op in ("head", "tail", "sample"):
        return getattr(d, op)(a["n"])
    if op in ("drop_na", "unique"):
        return getattr(d, op)(*a["cols"])
    if op == "sort":
        return d.sort(**dict(zip(a["keys"], a["dirs"])))
    raise ValueError(op)


def supported(fr, a, pals):
    if a["op"] in ("filter_kv", "filter_out_kv"):
        # the compared value must exist in the column's palette; comparing a value with a
        # column is the implementation's own ==, which is sound for non-missing values
        for c, v in a["kv"]:
            if not pals[c].supports([v]):
                return False
    return True


def execute(fr, a, pals, form="direct"):
    rec = {"fr": fr, "a": a, "out": {"cols": [], "cell": {}}, "err": ""}
    try:
        d = frames.build(fr, pals)
        out = call(d, a, pals, form)
        rec["out"] = frames.observe(out, pals)
    except Exception as e:
        rec["err"] = type(e).__name__ + ": " + str(e)[:100]
    return rec


def sig_of(rec, pals):
    a = rec["a"]
    s = {"op": a["op"]}
    names = [c for c in ("k", "j") if c in pals]
    used = a.get("cols") or a.get("keys") or [c for c, _ in a.get("kv", [])] or names
    used = [c for c in used if c in pals and c != "r"]
    s["kinds"] = sorted(set(pals[c].kind for c in used))
    s["palettes"] = sorted(set(pals[c].name for c in used))
    s.update(frames.frame_sig(rec["fr"], used or names))
    if a["op"] == "sort":
        s["dirs"] = sorted(set(a["dirs"]))
        # named trigger predicate of KF-C03-astral-sentinel: a string key column holding both a
        # missing value and a value >= U+FFFF (the sentinel sort() substitutes for missing strings)
        s["str_key_ge_uffff_with_na"] = any(
            pals[c].name == "str/astral" and gamma.NA in rec["fr"]["cell"][c]
            and any(x >= 2 for x in rec["fr"]["cell"][c]) for c in a["keys"] if c in pals)
    return s


def generate(ctx, which, maxrows, cells):
    r = ctx.model_check("FrameOpsMC", cfg_text=frames.mc_cfg(
        {"MaxRows": maxrows, "PosCells": cells, "Emit": True, "Which": which}), timeout=3000)
    frs = [j["fr"] for j in r.json_lines if j.get("kind") == "frame"]
    args = {}
    for j in r.json_lines:
        if j.get("kind") == "arg":
            args.setdefault(j["n"], []).append(j["a"])
    key = lambda a: __import__("json").dumps(a, sort_keys=True)
    for n in args:
        args[n] = sorted({key(a): a for a in args[n]}.values(), key=key)
    frs = sorted({key(f): f for f in frs}.values(), key=key)
    return frs, args


def random_arg(rng, which, n):
    cols = rng.choice([["k"], ["j"], ["k", "j"], ["j", "k"]])
    if which == "sort":
        return {"op": "sort", "keys": cols, "dirs": [rng.choice([1, -1]) for _ in cols]}
    op = rng.choice(OPS_SUBSET)
    if op in ("filter", "filter_out"):
        return {"op": op, "mask": [rng.random() < 0.5 for _ in range(n)]}
    if op in ("filter_kv", "filter_out_kv"):
        return {"op": op, "kv": [[c, 2 * rng.randrange(3)] for c in cols]}
    if op in ("slice", "slice_off"):
        return {"op": op, "idx": [rng.randrange(n) for _ in range(rng.randint(0, n))]}
    if op in ("head", "tail", "sample"):
        return {"op": op, "n": rng.randint(0, n + 1)}
    return {"op": op, "cols": cols}


def run_machine(ctx, which, ops, trace_module="FrameOpsTrace"):
    quick = ctx.tier == "quick"
    if quick:
        maxrows, cells = 3, [0, 2, 4]
        per_frame_args, per_case_pals = 3, 2
    else:
        maxrows, cells = 3, [0, 2, 3, 4]
        # every argument for frames of <= 2 rows; 24 (stratified) of the ~170 arguments for each 3-row frame
        per_frame_args, per_case_pals = (None if which == "sort" else 24), 2
    frs, args = generate(ctx, which, maxrows, cells)
    if not quick:
        # the model is additionally checked (without emission) one row deeper
        ctx.model_check("FrameOpsMC", cfg_text=frames.mc_cfg(
            {"MaxRows": 4, "PosCells": [0, 2], "Emit": False, "Which": which}), timeout=3000)
    rng = ctx.rng
    records, meta = [], []
    opcount = {}
    rot = 0
    samples = []

    def flush(force=False):
        """Validates what has been recorded so far and lets go of it (bounds memory in the thorough tier)."""
        if not records or (len(records) < 150000 and not force):
            return
        bad = ctx.validate(trace_module, records)
        for i, clause in bad:
            rec, (pals, form) = records[i], meta[i]
            ctx.fail(clause, sig_of(rec, pals),
                     {"rec": rec, "palettes": {c: p.name for c, p in pals.items()}, "form": form,
                      "concrete_in": frames.render_frame(rec["fr"], pals)})
        for i in range(0, len(records), max(1, len(records) // 3)):
            samples.append((records[i], meta[i]))
        del records[:], meta[:]

    for fr in frs:
        flush()
        n = len(fr["cell"]["k"])
        cand = args[n]
        if per_frame_args is None or n <= (1 if quick else 2):
            chosen = cand
        else:
            # one argument from a rotating op (stratification) + random others
            op = ops[rot % len(ops)]
            rot += 1
            first = [a for a in cand if a["op"] == op]
            chosen = [rng.choice(first)] if first else []
            chosen += [rng.choice(cand) for _ in range(per_frame_args - len(chosen))]
        for a in chosen:
            for _ in range(per_case_pals if n > 1 else 4):
                pals = frames.choose_palettes(rng, fr, ["k", "j"])
                pals["r"] = frames.ROWID
                if not supported(fr, a, pals):
                    ctx.skip("kv value not representable in the chosen palette")
                    continue
                forms = ["direct", "callable", rng.choice(["objmask", "intmask", "listmask"])] if a["op"] in ("filter", "filter_out") else \
                    (["direct", "range"] if a["op"] in ("slice", "slice_off") else ["direct"])
                for form in forms:
                    rec = execute(fr, a, pals, form)
                    records.append(rec)
                    meta.append((pals, form))
                    opcount[a["op"]] = opcount.get(a["op"], 0) + 1
                    ctx.count((repr(fr), repr(a), pals["k"].name, pals["j"].name, form), frames.nontrivial(fr))
    # key-sensitive sweep: every frame with >= 2 rows once more under a numeric palette pair taken
    # cyclically from NUMERIC_MIX x NUMERIC_MIX (int64 beyond 2**53 next to floats, uint8, -0.0 ...)
    mix = [(p, q) for p in frames.NUMERIC_MIX for q in frames.NUMERIC_MIX]
    cyc = 0
    for fr in frs:
        n = len(fr["cell"]["k"])
        if n < 2:
            continue
        for _ in range(len(mix)):
            p, q = mix[cyc % len(mix)]
            cyc += 1
            if p.supports(fr["cell"]["k"]) and q.supports(fr["cell"]["j"]):
                break
        else:
            continue
        pals = {"k": p, "j": q, "r": frames.ROWID}
        if which == "sort":
            a = {"op": "sort", "keys": ["k", "j"], "dirs": [rng.choice([1, -1]), rng.choice([1, -1])]}
        else:
            a = {"op": "unique", "cols": rng.choice([["k", "j"], ["j", "k"], ["k"], ["j"]])}
        rec = execute(fr, a, pals)
        records.append(rec)
        meta.append((pals, "direct"))
        opcount["mix:" + a["op"]] = opcount.get("mix:" + a["op"], 0) + 1
        ctx.count((repr(fr), repr(a), p.name, q.name, "mix"), frames.nontrivial(fr))
    # twins: -0.0 next to 0.0 (one class, two representations) under the float/inf palette in both key columns
    for fr in frs:
        if len(fr["cell"]["k"]) < 2 or (2 not in fr["cell"]["k"] and 2 not in fr["cell"]["j"]):
            continue
        if quick and rng.random() < 0.7:
            continue
        tw = frames.with_twins(rng, fr)
        pals = {"k": gamma.FLOAT_INF, "j": gamma.FLOAT_INF, "r": frames.ROWID}
        a = ({"op": "sort", "keys": ["k", "j"], "dirs": [rng.choice([1, -1]), 1]} if which == "sort" else
             {"op": rng.choice(["unique", "unique", "drop_na"]), "cols": rng.choice([["k", "j"], ["k"], ["j"]])})
        rec = execute(tw, a, pals)
        records.append(rec)
        meta.append((pals, "direct"))
        opcount["twin:" + a["op"]] = opcount.get("twin:" + a["op"], 0) + 1
        ctx.count((repr(tw), repr(a), "twin"), True)
    # record -> validate direction: larger random frames (4..24 rows, many ties), random arguments,
    # judged by the same trace spec; reaches size-dependent code paths (e.g. sort kernels) the
    # exhaustive <= 3-row space cannot
    nbig = 400 if quick else 4000
    for _ in range(nbig):
        n = rng.randint(4, 24)
        fr = frames.random_frame(rng, n)
        a = random_arg(rng, which, n)
        pals = frames.choose_palettes(rng, fr, ["k", "j"])
        pals["r"] = frames.ROWID
        if not supported(fr, a, pals):
            continue
        rec = execute(fr, a, pals)
        records.append(rec)
        meta.append((pals, "direct"))
        opcount["big:" + a["op"]] = opcount.get("big:" + a["op"], 0) + 1
        ctx.count((repr(fr), repr(a), pals["k"].name, pals["j"].name, "big"), True)
    flush(force=True)
    for rec, (pals, form) in samples[:: max(1, len(samples) // 5)]:
        ctx.sample({"abstract": rec, "palettes": {c: p.name for c, p in pals.items()}, "form": form,
                    "concrete_in": frames.render_frame(rec["fr"], pals)})
    ctx.extra["calls_per_op"] = opcount
    ctx.extra["frames"] = len(frs)
    ctx.exhaustive = (not quick) and per_frame_args is None
    ctx.rule = ("frames (k, j, row id r) with <= %d rows over cells {NA} u %s and every argument record, both enumerated by TLC "
                "(FrameOpsMC, Which=%s); %s; each case on %d random palette pairs for (k, j). "
                "non-trivial = >= 2 rows with a tie or an NA in a key column"
                % (maxrows, cells, which,
                   "every argument of every frame" if per_frame_args is None else
                   "%d arguments per frame (one from a rotating op for stratification)" % per_frame_args,
                   per_case_pals))
    ctx.assumptions += ["abstraction alpha trusts Python scalar ==, <, isnan, isnat",
                        "filter(col=value) is exercised with non-missing values only (comparison with a missing value is the implementation's own ==)",
                        "bounds as in rule"]


def run(ctx):
    run_machine(ctx, "subset", OPS_SUBSET)
    from props import c01
    c01.histories_for(ctx, "C02", 300 if ctx.tier == "quick" else 4000)


def replay(ctx, rp, trace_module="FrameOpsTrace"):
    for case in rp["cases"]:
        pals = {c: (frames.ROWID if n == "rowid" else gamma.BY_NAME[n]) for c, n in case["palettes"].items()}
        rec = execute(case["rec"]["fr"], case["rec"]["a"], pals, case.get("form", "direct"))
        bad = ctx.validate(trace_module, [rec])
        for _, clause in bad:
            ctx.fail(clause, sig_of(rec, pals), {"rec": rec, "palettes": case["palettes"], "form": case.get("form")})
        print("replayed", rec["a"], "->", [c for _, c in bad] or "accepted", rec["err"])
