"""C15 - ListOfDicts transformations match plain list-of-dict semantics."""
import json

UNSET = -9
ALIEN = -99


_flip = [0]


def to_py(item):
    """Abstract item -> dict.  Every other dict is built with its keys inserted in the opposite order: two dicts are
    the same item whatever the order their keys were inserted in."""
    d = {k: (None if v == -1 else v) for k, v in item.items()}
    _flip[0] += 1
    return dict(reversed(list(d.items()))) if _flip[0] % 2 else d


def to_abs(d):
    out = {}
    for k, v in dict(d).items():
        if v is None:
            out[k] = -1
        elif isinstance(v, bool) or not isinstance(v, int) or v < 0:
            out[k] = ALIEN
        else:
            out[k] = v
    return out


def pred(p):
    f = p["f"]
    if f == "a_eq":
        v = None if p["v"] == -1 else p["v"]
        return lambda x: x.a == v
    if f == "b_notnone":
        return lambda x: x.get("b") is not None
    if f == "b_value":
        # not a bool: None / 0 are false, other numbers true (a value held in a container - C17's nested
        # concretisation - is looked up inside it)
        def value(x):
            v = x.get("b")
            if isinstance(v, tuple) and len(v) == 1:
                v = v[0]
            return v["n"][0] if isinstance(v, dict) else v
        return value
    if f == "true":
        return lambda x: True
    return lambda x: False


def fn(g):
    if g["f"] == "const":
        v = None if g["v"] == -1 else g["v"]
        return lambda x: v
    k = g["k"]
    return lambda x: x[k]


def call(l, a):
    import dataiter as di
    op = a["op"]
    val = lambda v: None if v == -1 else v
    if op in ("filter", "filter_out"):
        return getattr(l, op)(pred(a["p"]))
    if op in ("filter_kv", "filter_out_kv"):
        return getattr(l, op[:-3])(**{k: val(v) for k, v in a["kv"]})
    if op == "sort":
        return l.sort(**dict(zip(a["keys"], a["dirs"])))
    if op in ("unique", "select", "unselect"):
        return getattr(l, op)(*a["keys"])
    if op == "rename":
        return l.rename(**{to: fm for to, fm in a["pairs"]})
    if op == "modify":
        return l.modify(**{a["k"]: fn(a["g"])})
    if op == "modify_if":
        return l.modify_if(pred(a["p"]), **{a["k"]: fn(a["g"])})
    if op == "fill":
        return l.fill_missing_keys(**{k: val(v) for k, v in a["kv"]})
    if op == "fill_all":
        return l.fill_missing_keys()
    if op == "append":
        return l.append(to_py(a["item"]))
    if op == "extend":
        return l.extend([to_py(x) for x in a["items"]])
    if op == "add":
        if a.get("via") == "iadd":
            l += [to_py(x) for x in a["items"]]      # the augmented form of +, with plain dicts on the right
            return l
        return l + di.ListOfDicts([to_py(x) for x in a["items"]])
    if op == "insert":
        return l.insert(a["i"], to_py(a["item"]))
    if op == "mul":
        if a.get("via") == "imul":
            l *= a["n"]
            return l
        return l * a["n"]
    if op == "reverse":
        return l.reverse()
    if op in ("head", "tail"):
        return getattr(l, op)(a["n"])
    if op == "slice":
        u = lambda x: None if x == UNSET else x
        return l[slice(u(a["lo"]), u(a["hi"]), a["step"])]
    if op == "copy":
        return l.copy()
    if op == "map_item":
        return l.map(lambda x: x)
    if op == "map_key":
        k = a["k"]
        return l.map(lambda x: x.get(k))
    raise ValueError(op)


def observe_cls(out):
    import dataiter as di
    from attd import AttributeDict
    if type(out) is not di.ListOfDicts:
        return False
    for x in out:
        if not isinstance(x, AttributeDict):
            return False
        for k in x:
            if getattr(x, k) is not x[k]:
                return False
    return True


def execute(lst, a):
    """lst: a live ListOfDicts.  Returns (record, result-or-None)."""
    rec = {"l": [to_abs(x) for x in lst], "a": a, "out": [], "cls": False, "err": ""}
    out = None
    try:
        import io, contextlib
        with contextlib.redirect_stdout(io.StringIO()):
            out = call(lst, a)
        if a["op"] == "map_key":
            # documented: a plain list of whatever the function returns (an empty result cannot tell: free)
            rec["cls"] = type(out) is list or len(out) == 0
            rec["out"] = [to_abs({"v": x}) for x in out]
            return rec, None
        rec["cls"] = observe_cls(out)
        rec["out"] = [to_abs(x) for x in out]
    except Exception as e:
        rec["err"] = type(e).__name__ + ": " + str(e)[:100]
        out = None
    return rec, out


def sig_of(rec):
    a = rec["a"]
    s = {"op": a["op"], "len": min(len(rec["l"]), 3)}
    for k in ("n", "i"):
        if k in a:
            n = len(rec["l"])
            v = a[k]
            s["arg_class"] = ("neg" if v < 0 else "zero" if v == 0 else "lt_len" if v < n else "eq_len" if v == n else "gt_len")
    return s


def generate(ctx, maxlen):
    from props import frames
    r = ctx.model_check("LoDOpsMC", cfg_text=frames.mc_cfg({"MaxLen": maxlen, "Emit": True}), timeout=3000)
    key = lambda x: json.dumps(x, sort_keys=True)
    uniq = lambda xs: sorted({key(x): x for x in xs}.values(), key=key)
    lists = uniq(j["l"] for j in r.json_lines if j.get("kind") == "list")
    args = {}
    for j in r.json_lines:
        if j.get("kind") == "arg":
            args.setdefault(j["n"], []).append(j["a"])
    return lists, {n: uniq(v) for n, v in args.items()}


def arg_pool(args, n):
    """Arguments enumerated for the nearest list length (index-like arguments depend on it)."""
    return args[min(n, max(args))]


def run(ctx):
    import dataiter as di
    quick = ctx.tier == "quick"
    lists, args = generate(ctx, 3)
    rng = ctx.rng
    records = []
    count = {}

    def one(lst, a):
        if a["op"] == "add" and rng.random() < 0.5:
            a = dict(a, via="iadd")
        if a["op"] == "mul" and a["n"] >= 0 and rng.random() < 0.5:
            a = dict(a, via="imul")
        rec, out = execute(lst, a)
        records.append(rec)
        count[a["op"]] = count.get(a["op"], 0) + 1
        ctx.count((json.dumps(rec["l"], sort_keys=True), json.dumps(a, sort_keys=True)), len(rec["l"]) >= 2)
        return out

    ops = sorted({a["op"] for v in args.values() for a in v})
    rot = 0
    for l in lists:
        n = len(l)
        if n <= 1 or not quick:
            for a in args[n]:
                one(di.ListOfDicts([to_py(x) for x in l]), a)
        if n >= 2:
            # unique() without keys on every list (items differ in the order their keys were inserted, see to_py)
            one(di.ListOfDicts([to_py(x) for x in l]), {"op": "unique", "keys": []})
        # chains: every step is judged against the observed state before it
        for _ in range(1 if quick else 4):
            cur = di.ListOfDicts([to_py(x) for x in l])
            for step in range(3):
                pool = arg_pool(args, len(cur))
                if step == 0:
                    op = ops[rot % len(ops)]
                    rot += 1
                    cand = [a for a in pool if a["op"] == op] or pool
                else:
                    cand = pool
                a = rng.choice(cand)
                out = one(cur, a)
                if out is None or type(out) is not di.ListOfDicts or len(out) > 6:
                    break
                cur = out
    bad = ctx.validate("LoDOpsTrace", records)
    outside = {}
    for i, clause in bad:
        if clause.startswith("map_"):
            outside.setdefault(clause, records[i])      # map is specified (LoDOps) but not named by the property: a NOTE
            continue
        ctx.fail(clause, sig_of(records[i]), {"rec": records[i]})
    for clause, rec in sorted(outside.items()):
        ctx.notes.append("outside-listed-properties LoDOps %s example=%s" % (clause, {k: rec[k] for k in ("l", "a", "out", "err")}))
    histories(ctx, 700 if quick else 10000)
    for i in range(0, len(records), max(1, len(records) // 6)):
        ctx.sample(records[i])
    ctx.extra["calls_per_op"] = count
    ctx.exhaustive = not quick
    ctx.rule = ("lists of <= 3 items over keys a, b (absent / None / 0 / 1 each) + identity tag, and every argument record of 25 methods "
                "(all boundary n / index / multiplier / slice bounds), enumerated by TLC (LoDOpsMC, model-checked on the product); "
                "%s; plus seeded 3-step chains where every step is judged against the state observed before it. "
                "non-trivial = >= 2 items" % ("all arguments for lists of <= 1 item" if quick else "all arguments for every list"))
    ctx.assumptions += ["calls on inputs outside Supported(l, a) (a key missing from some item, negative n) are executed but never judged"]


HISTORY_CLAUSES = ("SM:editor-changed-items-other-than-as-documented", "SM:result-holds-wrong-item-objects",
                   "SM:reader-result-not-a-function-of-the-current-items", "SM:raised", "SM:no-new-list",
                   "SM:sample-not-an-ordered-sublist", "SM:result-is-an-existing-list-object")


def histories(ctx, n):
    """Histories on the session machine (LoDSM, shared with C17): readers (keys, pluck), derivations and editors
    interleaved on a growing set of lists.  What a transformation returns is a function of its receiver's current
    items - whatever was read, derived or edited before.  The clauses about contents belong to this property; the
    ones about flags, warnings and isolation to C17."""
    from props import c17
    rng = ctx.rng
    traces = [c17.random_trace(rng, rng.randint(2, 6)) for _ in range(n)]
    # focused: a reader, then a derivation that changes which items (hence which keys) the list holds, then a
    # transformation whose result depends on the set of keys / items
    derive = [a for a in c17.UNARY if a["op"] in ("append", "insert", "filter", "filter_out", "head", "tail", "slice", "drop_na", "mul")]
    after = [{"op": "fill_all"}, {"op": "keys"}, {"op": "unique", "keys": ["a"]}, {"op": "sort", "keys": ["a"], "dirs": [1]},
             {"op": "pluck", "k": "b"}, {"op": "fill", "kv": [["b", 0]]}]
    for _ in range(n // 2):
        init = [{"a": rng.choice([-1, 0, 1]), **({"b": rng.choice([-1, 0, 1])} if rng.random() < 0.5 else {})}
                for _ in range(rng.randint(1, 3))]
        sess = c17.Session(init)
        tr = {"init": {"items": [to_abs(x) for x in sess.keep], "lists": [[sess.ids[id(it)] for it in list.__iter__(sess.lists[0])]]},
              "steps": []}
        plan = [{"x": 1, "o": 0, "a": rng.choice([{"op": "keys"}, {"op": "pluck", "k": "b"}, {"op": "sort", "keys": ["a"], "dirs": [1]}])}]
        for e in plan:
            e["obs"] = sess.step(e)
            tr["steps"].append(e)
        for _ in range(rng.randint(1, 2)):
            e = {"x": len(sess.lists), "o": 0, "a": rng.choice(derive)}
            e["obs"] = sess.step(e)
            tr["steps"].append(e)
            if e["obs"]["err"]:
                break
        e = {"x": len(sess.lists), "o": 0, "a": rng.choice(after)}
        e["obs"] = sess.step(e)
        tr["steps"].append(e)
        traces.append(tr)
    bad = c17.ctx_validate_traces(ctx, traces)
    for ti, step, clause in bad:
        if clause.startswith(HISTORY_CLAUSES):
            e = traces[ti]["steps"][step - 1]
            ctx.fail("history:" + clause.rsplit(":", 1)[0], {"op": e["a"]["op"], "history": True,
                                                             "ops_before": sorted({x["a"]["op"] for x in traces[ti]["steps"][:step - 1]})[:6]},
                     {"trace": traces[ti], "failing_step": step})
    ctx.extra["session_histories"] = len(traces)


def replay(ctx, rp):
    import dataiter as di
    for case in rp["cases"]:
        if "trace" in case:
            from props import c17
            tr0 = case["trace"]
            s = c17.Session([dict(x) for x in tr0["init"]["items"]], tr0.get("nested", False))
            tr = {"init": tr0["init"], "nested": tr0.get("nested", False), "steps": []}
            for e0 in tr0["steps"]:
                e = {"x": e0["x"], "o": e0["o"], "a": e0["a"]}
                e["obs"] = s.step(e)
                tr["steps"].append(e)
            bad = c17.ctx_validate_traces(ctx, [tr])
            for _, step, clause in bad:
                if clause.startswith(HISTORY_CLAUSES):
                    ctx.fail("history:" + clause.rsplit(":", 1)[0], {"op": tr["steps"][step - 1]["a"]["op"], "history": True}, {"trace": tr, "failing_step": step})
            print("replayed history of", len(tr["steps"]), "calls ->", [(s_, c) for _, s_, c in bad] or "accepted")
            continue
        rec0 = case["rec"]
        rec, _ = execute(di.ListOfDicts([to_py(x) for x in rec0["l"]]), rec0["a"])
        bad = ctx.validate("LoDOpsTrace", [rec])
        for _, clause in bad:
            ctx.fail(clause, sig_of(rec), {"rec": rec})
        print("replayed", rec0["a"], "->", [c for _, c in bad] or "accepted", rec["err"])
