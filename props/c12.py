"""C12 (write/read round trips, compression by suffix) and C14 (restricted reads, aliases) on the Store machine."""
import json
import os
import shutil
import tempfile

import numpy as np

from harness import gamma
from harness.gamma import Palette, NA

HOSTILE_U8 = Palette("str/hostile-utf8", "str", ["A b", "a,b;c\td", 'q"uo"te', "multi\nline é€", " lead trail ", "cr\rx\r\ny"], na="", full_dtype=str)
HOSTILE_L1 = Palette("str/hostile-latin1", "str", ["A b", "a,b;c\td", 'q"uo"te', "multi\nline éÿ", " lead trail ", "cr\rx\r\ny"], na="", full_dtype=str)
FLOATS = Palette("float/plain", "float", [-1.5, 0.0, 2.5, 1e300], na=float("nan"), full_dtype=float)
INTS = Palette("int/plain", "int", [-3, 0, 7, 2**53], has_na=False, full_dtype=int)
TEXTNUM = Palette("str/digits", "str", ["x0", "x1", "x2", "x3"], na="", full_dtype=str)
# strings a fixed-width NumPy array cannot hold (trailing NUL) - the binary formats have to keep them
NULSTR = Palette("str/nul", "str", ["a\x00", "\x00", "ab", "b\x00c"], na="", full_dtype=str)
# JSON values that are themselves objects / arrays (a key restriction applies to the items' own keys only)
NESTED = Palette("obj/nested", "obj", [{"lat": 1, "lon": 2}, {"a": 3, "lon": {"x": 1}}, [1, {"a": 2, "z": 0}], {"z": None}], na=None, full_dtype=object)
for p in (HOSTILE_U8, HOSTILE_L1, FLOATS, INTS, TEXTNUM, NULSTR, NESTED):
    gamma.BY_NAME[p.name] = p

# abstract contents (columns a, b, c): content 2 has its string column starting with a missing value
CONTENTS = [
    {"cols": ["a", "b", "c"], "cell": {"a": [0, 2, 4], "b": [2, -1, 4], "c": [2, -1, 0]}},
    {"cols": ["a", "b", "c"], "cell": {"a": [2, 0], "b": [-1, 6], "c": [-1, 4]}},
    {"cols": ["a", "b", "c"], "cell": {"a": [6], "b": [8], "c": [6]}},
    # first row: middle column missing, later column present (formats that omit nulls must not reorder columns)
    {"cols": ["a", "b", "c"], "cell": {"a": [0, 2], "b": [-1, 2], "c": [2, -1]}},
    # other column sets than the classes above (a reader must not remember the names of an earlier file);
    # class 5 carries NUL-terminated strings and a fixed-width string column through the binary formats
    {"cols": ["a", "b", "c", "d"], "cell": {"a": [0, 2, 4, 6], "b": [0, 2, -1, 6], "c": [2, -1, 0, 4], "d": [0, 4, -1, 6]}},
    {"cols": ["e", "a", "b"], "cell": {"e": [2, 0], "a": [0, 2], "b": [10, -1]}},      # b holds carriage returns
]
# class 7: a file of more than a mebibyte (readers that work in blocks) whose strings hold line breaks
_BIG_N = 60000
CONTENTS.append({"cols": ["a", "b", "c"], "cell": {"a": [(0, 2, 4, 6)[i % 4] for i in range(_BIG_N)],
                                                   "b": [(6, 0, 10, 2)[i % 4] for i in range(_BIG_N)],
                                                   "c": [(2, -1, 0, 4)[i % 4] for i in range(_BIG_N)]}})
BIG = len(CONTENTS)
_SMALL = {"cols": ["a", "b", "c"], "cell": {"a": [], "b": [], "c": []}}
MAGIC = {b"\x1f\x8b": "gz", b"BZh": "bz2", b"\xfd7zXZ\x00": "xz"}


def palettes(owner, fmt, enc, k):
    host = HOSTILE_U8 if enc == "utf-8" else HOSTILE_L1
    if owner == "lod" and fmt == "csv":
        return {"a": TEXTNUM, "b": host, "c": TEXTNUM, "d": TEXTNUM, "e": TEXTNUM}
    c = FLOATS if (fmt in ("json", "geojson") or owner == "lod" or k % 2 == 1) else gamma.DATE
    a = INTS if k != 2 else gamma.BOOL
    if owner == "lod" and fmt == "json":
        a = INTS
        return {"a": a, "b": host, "c": c, "d": TEXTNUM, "e": NESTED}
    b, d = host, TEXTNUM
    if k == 5 and fmt in ("pickle", "npz", "parquet"):
        b = NULSTR
        if owner == "df" and fmt != "parquet":
            d = gamma.STR_FIXED      # Arrow has one string type: fixed-width Unicode is not kept apart there
    return {"a": a, "b": b, "c": c, "d": d, "e": FLOATS}


def magic_of(path):
    try:
        with open(path, "rb") as f:
            head = f.read(6)
    except OSError:
        return "missing"
    for m, name in MAGIC.items():
        if head.startswith(m):
            return name
    return "none"


def _geometry(i):
    return {"type": "Point", "coordinates": [i, i + 0.5]} if i != 1 else None


def build(owner, content, pals):
    import dataiter as di
    if owner == "df":
        return di.DataFrame(**{c: pals[c].vector(content["cell"][c], typed=True) for c in content["cols"]})
    n = len(content["cell"]["a"])
    if owner == "geo":
        cols = {c: pals[c].vector(content["cell"][c], typed=True) for c in content["cols"]}
        return di.GeoJSON(**cols, geometry=di.Vector([_geometry(i) for i in range(n)], object))
    items = []
    for i in range(n):
        it = {}
        for c in content["cols"]:
            v = pals[c].value(content["cell"][c][i])
            if isinstance(v, float) and v != v:
                v = None
            if isinstance(v, str) and v == "" :
                v = None
            it[c] = v
        items.append(it)
    return di.ListOfDicts(items)


def _missing_for_dtype(x, kind):
    """Missing by the representation the column's dtype uses (C10): NaN in a float column, NaT, "" in a
    string column, None in an object column - a NaN inside an object column is not a missing value."""
    if kind == "O":
        return x is None
    if kind in "TU":
        return isinstance(x, str) and x == ""
    return gamma.is_missing(x)


def _alpha_col(pal, arr):
    a = np.asarray(arr)
    out = []
    for i in range(a.shape[0]):
        x = a[i]
        if _missing_for_dtype(x, a.dtype.kind):
            out.append(NA)
        elif gamma.is_missing(x):
            out.append(gamma.ALIEN)      # e.g. NaN inside an object column, "nan" text is caught by the palette
        else:
            out.append(pal.alpha(x))
    return out


def observe(owner, obj, pals):
    import dataiter as di
    if owner in ("df", "geo"):
        cols = [c for c in obj.keys() if not (owner == "geo" and c == "geometry")]
        frame = {"cols": cols, "cell": {c: (_alpha_col(pals[c], obj[c]) if c in pals else [gamma.ALIEN]) for c in cols}}
        kinds = {c: str(np.asarray(obj[c]).dtype) for c in cols}
        if owner == "geo":
            kinds["geometry"] = json.dumps(list(obj["geometry"]), default=str) if "geometry" in obj else "absent"
            kinds["metadata"] = json.dumps(dict(obj.metadata), sort_keys=True, default=str)
        return frame, kinds
    keys = list(dict.fromkeys(k for it in obj for k in it))
    cell = {}
    for k in keys:
        col = []
        for it in obj:
            v = it.get(k)
            col.append(pals[k].alpha(v) if k in pals else gamma.ALIEN)
        cell[k] = col
    return {"cols": keys, "cell": cell}, {k: "".join(sorted({type(it.get(k)).__name__ for it in obj})) for k in keys}


def write_foreign(path, e, content, pals):
    """A file as another program writes it: Parquet from NumPy arrays through pyarrow (NaN stays a NaN value, it is
    not a null), CSV through the csv module with NaN spelled NAN (which Arrow parses as a float NaN, not as a null)."""
    cols = content["cols"]
    conc = {c: pals[c].concrete(content["cell"][c]) for c in cols}
    if e["fmt"] == "parquet":
        import pyarrow as pa
        import pyarrow.parquet as pq
        arrays = {}
        for c in cols:
            p = pals[c]
            if p.kind == "float":
                arrays[c] = pa.array(np.array(conc[c], float))
                assert arrays[c].null_count == 0
            elif p.kind == "date":
                arrays[c] = pa.array(np.array(conc[c], "datetime64[D]"))
            elif p.kind == "str":
                arrays[c] = pa.array([None if v == "" else v for v in conc[c]], pa.string())
            else:
                arrays[c] = pa.array(conc[c])
        pq.write_table(pa.table(arrays), path)
        return
    import csv
    with open(path, "w", encoding=e["enc"], newline="") as f:
        w = csv.writer(f, delimiter=e["sep"], quoting=csv.QUOTE_MINIMAL, lineterminator="\n")
        if e["header"]:
            w.writerow(cols)
        for i in range(len(conc[cols[0]])):
            row = []
            for c in cols:
                v = conc[c][i]
                if isinstance(v, float) and v != v:
                    v = "NAN"
                elif v is None:
                    v = ""
                elif isinstance(v, bool):
                    v = "true" if v else "false"
                row.append(v)
            w.writerow(row)


def path_of(d, e):
    """Files of stem q are named by pathlib.Path objects, the others by strings."""
    import pathlib
    p = os.path.join(d, e["stem"] + "." + e["fmt"] + e["suffix"])
    return pathlib.Path(p) if e["stem"] == "q" else p


def do_write(d, e, contents_written):
    import dataiter as di
    path = path_of(d, e)
    pals = palettes(e["owner"], e["fmt"], e["enc"], e["c"])
    obs = {"err": "", "exists": False, "magic": "missing"}
    try:
        obj = build(e["owner"], CONTENTS[e["c"] - 1], pals)
        f = e["fmt"]
        if e.get("ext"):
            write_foreign(str(path), e, CONTENTS[e["c"] - 1], pals)
        elif f == "pickle":
            obj.write_pickle(path)
        elif f == "npz":
            obj.write_npz(path)
        elif f == "parquet":
            obj.write_parquet(path)
        elif f == "json":
            obj.write_json(path, encoding=e["enc"])
        elif f == "geojson":
            obj.write(path, encoding=e["enc"])
        elif f == "csv":
            obj.write_csv(path, encoding=e["enc"], sep=e["sep"], header=e["header"])
        _, kinds = observe(e["owner"], obj, pals)
        contents_written[(e["stem"], e["suffix"])] = (pals, kinds)
    except Exception as ex:
        obs["err"] = type(ex).__name__ + ": " + str(ex)[:80]
    obs["exists"] = os.path.exists(path)
    obs["magic"] = magic_of(path)
    return obs


def reader(owner, fmt, alias):
    import dataiter as di
    if alias:
        return {"csv": di.read_csv, "npz": di.read_npz, "parquet": di.read_parquet, "json": di.read_json,
                "geojson": di.read_geojson}[fmt]
    if owner == "geo":
        return di.GeoJSON.read
    cls = di.DataFrame if owner == "df" else di.ListOfDicts
    return getattr(cls, "read_" + fmt)


CAST_COL = {"float": "a", "object": "c", "str": "c"}
CAST_DTYPE = {"float": float, "object": object, "str": str}


# one mapping object per kind of mapping, reused by every read of the run (a user's module-level constant):
# a reader must not consume or edit the mapping it is given
CAST_MAPS = {k: {CAST_COL[k]: CAST_DTYPE[k]} for k in CAST_COL}


def _cast_image(src, cast):
    if cast == "float":
        img = [float(str(v).replace("x", "")) if isinstance(v, str) else float(v) for v in src.values]
        return Palette(src.name + "->float", "float", img, na=float("nan"))
    if cast == "object":
        return Palette(src.name + "->object", "obj", list(src.values), na=None)
    img = [v.isoformat() if hasattr(v, "isoformat") else str(v) for v in src.values]
    return Palette(src.name + "->str", "str", img, na="")


def _equal_kinds(fmt, kinds, kinds_w, cols):
    def norm(k):
        # Arrow has one string type (see palettes)
        return "str" if fmt == "parquet" and (k.startswith("<U") or k.startswith("StringDType")) else k
    return all(norm(kinds.get(c, "?")) == norm(kinds_w.get(c, "??")) for c in cols)


def do_read(d, e, contents_written):
    path = path_of(d, e)
    pals, kinds_w = contents_written.get((e["stem"], e["suffix"]), ({}, {}))
    obs = {"err": "", "frame": {"cols": [], "cell": {}}, "kinds_same": True, "alias_same": True, "cast_ok": True}
    cast = e["cast"] if isinstance(e["cast"], str) else ("float" if e["cast"] else "")

    def call(alias, extra=None):
        kw = {}
        f, o = e["fmt"], e["owner"]
        if f in ("csv", "json", "geojson"):
            kw["encoding"] = e["enc"]
        if f == "csv":
            kw["sep"], kw["header"] = e["sep"], e["header"]
        if e["cols"]:
            kw["columns" if o != "lod" else "keys"] = list(e["cols"])
        if cast:
            if o != "lod":
                kw["dtypes"] = CAST_MAPS[cast]
            else:
                kw["types"] = {"a": (lambda x: float(str(x).replace("x", "")))}
        kw.update(extra or {})
        return reader(o, f, alias)(path, **kw)

    def outcome(alias, extra):
        try:
            res = call(alias, extra)
        except Exception as ex:
            return ("raised", type(ex).__name__)
        fr, kd = observe(e["owner"], res, pals)
        return ("returned", type(res).__name__, fr, kd)

    if cast and CAST_COL[cast] in pals:
        # after the dtype / type mapping the column holds the image of its palette under the cast
        col = CAST_COL[cast]
        pals = dict(pals, **{col: _cast_image(pals[col], cast)})
    try:
        res = call(False)
        frame, kinds = observe(e["owner"], res, pals)
        obs["frame"] = frame
        if not cast:
            obs["kinds_same"] = _equal_kinds(e["fmt"], kinds, kinds_w, frame["cols"])
        elif CAST_COL[cast] in frame["cols"]:
            k = kinds.get(CAST_COL[cast])
            if e["owner"] == "lod":
                obs["cast_ok"] = k in ("float", "floatNoneType", "NoneTypefloat")
            else:
                obs["cast_ok"] = {"float": k == "float64", "object": k == "object", "str": k.startswith("StringDType")}[cast]
        if e["alias"]:
            # every keyword argument of the alias: the call's own arguments, then the ones only forwarded
            variants = [None]
            if e["fmt"] in ("json", "geojson"):
                variants.append({"parse_int": float})
            if e["fmt"] == "npz":
                variants += [{"allow_pickle": False}, {"allow_pickle": True}]
            obs["alias_same"] = all(outcome(True, x) == outcome(False, x) for x in variants)
    except Exception as ex:
        obs["err"] = type(ex).__name__ + ": " + str(ex)[:80]
    return obs


def run_behaviour(hist):
    hist = [dict(e, sep="\t" if e.get("sep") in ("\\t", "\t") else e.get("sep")) for e in hist]
    d = tempfile.mkdtemp(prefix="verif-store-")
    written = {}
    steps = []
    try:
        foreign = {}
        for e in hist:
            e = dict(e)
            if e["t"] == "write":
                foreign[(e["stem"], e["suffix"])] = bool(e.get("ext"))
            elif foreign.get((e["stem"], e["suffix"])):
                e["foreign"] = True
            e["obs"] = do_write(d, e, written) if e["t"] == "write" else do_read(d, e, written)
            steps.append(e)
    finally:
        shutil.rmtree(d, ignore_errors=True)
    used = {e["c"] for e in hist if e["t"] == "write"}
    # (the big class travels to TLC only with the histories that use it)
    return {"contents": [c if (i + 1 != BIG or BIG in used) else _SMALL for i, c in enumerate(CONTENTS)], "steps": steps}


def sig_of(e):
    s = {"t": e["t"], "owner": e["owner"], "fmt": e["fmt"], "suffix": e["suffix"]}
    if e["fmt"] in ("csv", "json", "geojson"):
        s["enc"] = e["enc"]
    if e["t"] == "read":
        s.update({"restricted": bool(e["cols"]), "alias": e["alias"], "cast": e["cast"]})
        if e.get("foreign"):
            s["foreign_file"] = True
        if e["cols"]:
            s["restriction_in_file_order"] = list(e["cols"]) == sorted(e["cols"])
    return s


# (GeoJSON files belong to C18 as far as writing and whole-file reading go; C14 names read_geojson and its restrictions)
MINE = {"C12": lambda c, e: e.get("owner") != "geo" and (c.startswith("write:") or (c.startswith("read:") and not e.get("cols") and not e.get("alias") and not e.get("cast"))),
        "C14": lambda c, e: c.startswith("read:") and (bool(e.get("cols")) or e.get("alias") or e.get("cast"))}


def gen(ctx, maxsteps, ncontents, fmts, seps, encs):
    q = lambda xs: ", ".join('"%s"' % x for x in xs)
    cfg = ('INIT Init\nNEXT Next\nINVARIANT Inv\nCONSTANTS\n MaxSteps = %d\n Emit = TRUE\n NContents = %d\n Owners = {"df", "lod", "geo"}\n'
           ' Fmts = {%s}\n Seps = {%s}\n Encs = {%s}\n' % (maxsteps, ncontents, q(fmts), q(seps).replace("\t", "\\t"), q(encs)))
    r = ctx.model_check("StoreMC", cfg_text=cfg, timeout=3000, heap="10g")
    return [j["hist"] for j in r.json_lines if "hist" in j]


def run_for(ctx, prop):
    quick = ctx.tier == "quick"
    rng = ctx.rng
    ALLF = ["pickle", "npz", "parquet", "csv", "json", "geojson"]
    # every configuration: one write followed by one read (whole / restricted / alias / cast)
    hists = gen(ctx, 2, len(CONTENTS), ALLF, [",", ";", "\t"], ["utf-8", "latin-1", "utf-16"])
    big = [h for h in hists if h[0]["c"] == BIG]
    hists = [h for h in hists if h[0]["c"] != BIG]
    # interleavings: two writes (overwrite, or another suffix of the same stem) then reads
    hists3 = gen(ctx, 3, 2, ["pickle", "csv", "json"], [","], ["utf-8"])
    hists3 = [h for h in hists3 if len(h) == 3]
    ctx.extra["behaviours_enumerated"] = len(hists) + len(hists3)
    if quick:
        # stratified by (owner, format, foreign file, mapping, alias, restricted): every kind of read is present,
        # the ones the property at hand owns more often
        strata = {}
        for h in hists:
            w, r = h[0], h[-1]
            strata.setdefault((w["owner"], w["fmt"], w["ext"], r["cast"], r["alias"], bool(r["cols"]), w["enc"]), []).append(h)
        chosen = []
        for key in sorted(strata):
            plain = not (key[3] or key[4] or key[5])
            n = (60 if plain == (prop == "C12") else 8) // (1 if key[1] in ("pickle", "npz", "parquet") else 2)
            chosen += rng.sample(strata[key], min(len(strata[key]), n))
    else:
        chosen = hists
    # the big class: plain and compressed, whole reads and one restricted read (few: each is a 60000-row file)
    bigsel = [h for h in big if h[0]["suffix"] in ("", ".gz") and h[0]["enc"] == "utf-8" and h[0]["sep"] in (",", "\t") and h[0]["header"]
              and not h[-1]["alias"] and not h[-1]["cast"] and (not h[-1]["cols"]) == (prop == "C12")]
    chosen = chosen + rng.sample(bigsel, min(len(bigsel), 3 if quick else 8))
    chosen = chosen + rng.sample(hists3, min(len(hists3), 600 if quick else 12000))
    traces = [run_behaviour(h) for h in chosen]
    bad = validate(ctx, traces)
    other = {}
    for ti, step, clause in bad:
        e = traces[ti]["steps"][step - 1]
        if MINE[prop](clause, e):
            ctx.fail(clause, sig_of(e), {"trace": traces[ti], "failing_step": step})
        else:
            other[clause] = other.get(clause, 0) + 1
    for k, v in sorted(other.items()):
        ctx.notes.append("clause owned by the other Store property seen %d times: %s" % (v, k))
    cfgs = set()
    for t in traces:
        for e in t["steps"]:
            cfgs.add((e["owner"], e["fmt"], e["suffix"], e["sep"], e["header"], e["enc"]))
            ctx.count((json.dumps({k: v for k, v in e.items() if k != "obs"}, sort_keys=True)), True)
    for t in traces[:: max(1, len(traces) // 4)][:4]:
        ctx.sample({"steps": t["steps"]})
    ctx.extra["configurations_covered"] = len(cfgs)
    ctx.exhaustive = not quick
    ctx.rule = ("StoreMC enumerates all behaviours write->read over {DataFrame, ListOfDicts} x formats x 4 suffixes x separators x header x "
                "encodings x 3 content classes (hostile strings: separators, quotes, newlines, non-ASCII, leading/trailing blanks; "
                "string column starting with a missing value; NaN/NaT) x {whole, 4 restrictions in every order, alias, dtype mapping}, "
                "plus 3-step interleavings (overwrites, two suffixes of one stem); %s are replayed in a temp directory "
                "(file existence, compression magic bytes, content by cells, dtype kinds) and validated by StoreTrace"
                % ("a seeded subset" if quick else "all 2-step behaviours and a seeded subset of the 3-step ones"))
    ctx.assumptions += ["codecs are black boxes; representable data only: >= 1 row, no all-missing CSV columns, no dates through JSON, "
                        "ListOfDicts CSV holds text"]


def validate(ctx, traces, chunk=3000):
    from harness import tlc as _tlc
    out = []
    for off in range(0, len(traces), chunk):
        part = traces[off:off + chunk]
        d = _tlc.scratch("verif-trace-")
        try:
            path = os.path.join(d, "trace.json")
            _tlc.write_json(path, part)
            r = ctx.tlc("StoreTrace", env={"TRACE_FILE": path}, cont=True, timeout=3000)
            seen = set()
            for b in r.bad:
                k = (b["tid"], b["step"], b["BAD"])
                if k not in seen:
                    seen.add(k)
                    out.append((off + b["tid"] - 1, b["step"], b["BAD"]))
            ctx.validated += len(part)
        finally:
            shutil.rmtree(d, ignore_errors=True)
    return out


def run(ctx):
    run_for(ctx, "C12")


def replay_for(ctx, rp, prop):
    for case in rp["cases"]:
        hist = [{k: v for k, v in e.items() if k != "obs"} for e in case["trace"]["steps"]]
        tr = run_behaviour(hist)
        bad = validate(ctx, [tr])
        for _, step, clause in bad:
            e = tr["steps"][step - 1]
            if MINE[prop](clause, e):
                ctx.fail(clause, sig_of(e), {"trace": tr, "failing_step": step})
        print("replayed", [(e["t"], e["fmt"], e["suffix"]) for e in hist], "->", [(s, c) for _, s, c in bad] or "accepted")


def replay(ctx, rp):
    replay_for(ctx, rp, "C12")
