"""Shared executor pieces for the DataFrame single-call machines (C02-C05, C09)."""
import numpy as np

from harness import gamma
from harness.gamma import NA, Palette

ROWID = Palette("rowid", "int", list(range(64)), has_na=False, full_dtype=int)
ROWID_F = ROWID  # the row id may come back as float after NA filling; alpha uses ==

KEY_PALETTES = [gamma.FLOAT_INF, gamma.FLOAT_BIG, gamma.FLOAT_HUGE, gamma.FLOAT_HASH, gamma.INT_SMALL, gamma.INT_BIG, gamma.INT_HASH, gamma.UINT8,
                gamma.STR_SHORT, gamma.STR_LONG, gamma.STR_MIXED, gamma.STR_FIXED, gamma.STR_ASTRAL,
                gamma.DATE, gamma.DATETIME, gamma.TIMEDELTA, gamma.BOOL, gamma.BOOL_OBJ, gamma.BYTES,
                gamma.OBJ_INT, gamma.DATETIME_NS_FINE]


def mc_cfg(consts):
    lines = ["INIT Init", "NEXT Next", "INVARIANT Inv", "CONSTANTS"]
    for k, v in consts.items():
        if isinstance(v, bool):
            v = "TRUE" if v else "FALSE"
        elif isinstance(v, str):
            v = '"%s"' % v
        elif isinstance(v, (list, tuple, set)):
            v = "{" + ", ".join(map(str, v)) + "}"
        lines.append(f"  {k} = {v}")
    return "\n".join(lines) + "\n"


def build(fr, pals):
    """Abstract frame -> real DataFrame.  pals: column name -> Palette."""
    import dataiter as di
    cols = {}
    for c in fr["cols"]:
        cols[c] = pals[c].vector(fr["cell"][c])
    return di.DataFrame(**cols)


def observe(out, pals):
    """Real DataFrame -> abstract frame (names in order; alpha of each element read from the ndarray)."""
    import dataiter as di
    if not isinstance(out, di.DataFrame):
        raise TypeError("result is not a DataFrame: %r" % type(out))
    cols = list(out.keys())
    cell = {}
    for c in cols:
        pal = pals.get(c)
        arr = np.asarray(out[c])
        if pal is None or arr.ndim != 1:
            cell[c] = [gamma.ALIEN] * (arr.shape[0] if arr.ndim >= 1 else 1)
        else:
            cell[c] = pal.alpha_seq(arr)
    return {"cols": cols, "cell": cell}


NUMERIC_MIX = [gamma.INT_BIG, gamma.FLOAT_INF, gamma.FLOAT_BIG, gamma.INT_SMALL, gamma.UINT8, gamma.INT_HASH, gamma.FLOAT_HASH]


def choose_palettes(rng, fr, names, pool=None):
    """A random palette per named key column among those that can represent its cells.
    One draw in four is restricted to the numeric palettes, so that mixed int/float key
    tuples (where numeric fast paths and float casts live) are met often enough."""
    pool = pool or KEY_PALETTES
    res = {}
    numeric = rng.random() < 0.25
    for c in names:
        ok = [p for p in pool if p.supports(fr["cell"][c])]
        if numeric:
            ok = [p for p in ok if p in NUMERIC_MIX] or ok
        res[c] = rng.choice(ok)
    return res


def with_twins(rng, fr, names=("k", "j")):
    """The same frame with some cells of class 1 replaced by their twin (cell 3: -0.0 next to 0.0 in float/inf)."""
    cell = {c: list(v) for c, v in fr["cell"].items()}
    for c in names:
        cell[c] = [3 if (x == 2 and rng.random() < 0.5) else x for x in cell[c]]
    return {"cols": fr["cols"], "cell": cell}


def random_frame(rng, nrows, names=("k", "j"), nvals=3, p_na=0.2):
    """A larger random frame for the record->validate direction (judged by the same trace spec)."""
    cell = {}
    for c in names:
        cell[c] = [(-1 if rng.random() < p_na else 2 * rng.randrange(nvals)) for _ in range(nrows)]
    cell["r"] = [2 * i for i in range(nrows)]
    return {"cols": list(names) + ["r"], "cell": cell}


def nontrivial(fr, names=("k", "j")):
    n = len(fr["cell"][fr["cols"][0]]) if fr["cols"] else 0
    if n < 2:
        return False
    for c in names:
        xs = fr["cell"].get(c, [])
        if NA in xs or len(set(x // 2 for x in xs)) < len(xs):
            return True
    return False


def frame_sig(fr, names=("k", "j")):
    n = len(fr["cell"][fr["cols"][0]]) if fr["cols"] else 0
    return {"nrow0": n == 0,
            "has_na": any(NA in fr["cell"].get(c, []) for c in names),
            "all_na": n > 0 and any(all(x == NA for x in fr["cell"].get(c, [])) for c in names)}


def render_frame(fr, pals):
    return {c: [gamma.render(v) for v in pals[c].concrete(fr["cell"][c])] for c in fr["cols"]}
