"""C01 / C06 - the DataFrame session machine (FrameSM): rectangularity, broadcast rule, attribute/key
coherence (C01) and no-mutation / no-aliasing under in-place pokes (C06), over histories of calls."""
import json

import numpy as np

from harness import gamma
from harness.gamma import NA

U = ["k", "a", "b", "r", "rr", "x", "y", "items", "a b"]
SM_PALETTES = [gamma.FLOAT_INF, gamma.FLOAT_BIG, gamma.STR_SHORT, gamma.STR_FIXED, gamma.STR_ASTRAL, gamma.DATE,
               gamma.DATETIME, gamma.OBJ_INT, gamma.INT_SMALL, gamma.TIMEDELTA]
FOCUS = {
    "C02": ["filter", "filter_out", "slice", "slice_off", "head", "tail", "drop_na", "unique", "unique", "group_by"],
    "C03": ["sort", "sort", "sort", "group_by"],
    "C04": ["gmodify", "group_by", "count", "split", "aggregate"],
    "C05": ["left", "inner", "semi", "anti", "full"],
    "C09": ["select", "unselect", "rename", "modify", "rbind", "cbind", "update", "colnames", "gmodify", "group_by"],
}
TRANSFORMING = {"filter", "filter_out", "slice", "slice_off", "head", "tail", "drop_na", "unique", "sort", "select",
                "unselect", "rename", "modify", "rbind", "cbind", "update", "left", "inner", "semi", "anti", "full", "deepcopy"}


def safe_nrow(d):
    """Row count read from the first column, without the library's own dimension check."""
    for v in dict.values(d):
        try:
            return len(v)
        except TypeError:
            return 1
    return 0


class Session:
    def __init__(self, pal, init):
        import dataiter as di
        self.pal = pal
        self.frames = []
        for f in init:
            self.frames.append(di.DataFrame(**{c: pal.vector(f["cell"][c], typed=True) for c in f["cols"]}))

    # ---- observation ----
    def observe(self):
        import dataiter as di
        cols_all = []
        for h, d in enumerate(self.frames):
            for c in dict.keys(d):
                cols_all.append((h, c, np.asarray(dict.__getitem__(d, c))))
        parent = list(range(len(cols_all)))

        def find(i):
            while parent[i] != i:
                parent[i] = parent[parent[i]]
                i = parent[i]
            return i
        for i in range(len(cols_all)):
            for j in range(i):
                a, b = cols_all[i][2], cols_all[j][2]
                same = (a is b) or (dict.__getitem__(self.frames[cols_all[i][0]], cols_all[i][1]) is
                                    dict.__getitem__(self.frames[cols_all[j][0]], cols_all[j][1]))
                if not same and a.size and b.size:
                    same = bool(np.shares_memory(a, b))
                if same:
                    parent[find(i)] = find(j)
        bid = {(h, c): find(i) + 1 for i, (h, c, _) in enumerate(cols_all)}
        out = []
        for h, d in enumerate(self.frames):
            cols = list(dict.keys(d))
            cell, ok, lens = {}, True, set()
            for c in cols:
                v = dict.__getitem__(d, c)
                arr = np.asarray(v)
                if not isinstance(v, di.DataFrameColumn) or arr.ndim != 1:
                    ok = False
                    cell[c] = [gamma.ALIEN]
                else:
                    cell[c] = self.pal.alpha_seq(arr)
                lens.add(len(cell[c]))
            ok = ok and len(lens) <= 1
            attr = {}
            for n in U:
                isin = n in d
                has = hasattr(d, n)
                same = False
                if has and isin:
                    try:
                        same = getattr(d, n) is d[n]
                    except Exception:
                        same = False
                attr[n] = [bool(isin), bool(has), bool(same)]
            out.append({"cols": cols, "cell": cell, "bid": {c: bid[(h, c)] for c in cols},
                        "grp": list(d._group_colnames), "attr": attr, "shape_ok": bool(ok)})
        return out

    # ---- execution ----
    def run(self, e):
        import dataiter as di
        P = self.pal
        d = self.frames[e["x"] - 1]
        o = self.frames[e["o"] - 1] if "o" in e else None
        op = e["op"]
        a = e.get("a", {})
        same = True

        def value(col, n):
            if len(col) == 1 and n != 1:
                return P.value(col[0])
            return P.vector(col, typed=True)
        if op in ("filter", "filter_out"):
            new = getattr(d, op)(np.array(a["mask"], dtype=bool))
        elif op in ("slice", "slice_off"):
            idx = list(a["idx"])
            if e.get("form") == "range" and idx and idx == list(range(idx[0], idx[-1] + 1)):
                new = getattr(d, op)(range(idx[0], idx[-1] + 1))
            else:
                new = getattr(d, op)(idx)
        elif op == "gmodify":
            v1, v2 = P.value(e["vals"][0]), P.vector(list(e["vals"])[:e["flen"]], typed=True)
            new = d.modify(**{e["name"]: (lambda x: v1) if e["flen"] == 1 else (lambda x: v2)})
        elif op in ("head", "tail"):
            new = getattr(d, op)(a["n"])
        elif op in ("drop_na", "unique"):
            new = getattr(d, op)(*a["cols"])
        elif op == "ctor":
            v = P.value(e["col"][0]) if (len(e["col"]) == 1 and e.get("scalar")) else P.vector(e["col"], typed=True)
            new = di.DataFrame(d, **{e["name"]: v})
        elif op in ("count", "split", "aggregate", "render"):
            new = None
            if op == "count":
                d.count(*e["cols"])
            elif op == "split":
                d.split(*e["cols"])
            elif op == "aggregate":
                d.aggregate(n=lambda x: x.nrow)
            else:
                str(d)
        elif op == "sort":
            new = d.sort(**dict(zip(a["keys"], a["dirs"])))
        elif op in ("select", "unselect"):
            new = getattr(d, op)(*a["names"])
        elif op == "rename":
            new = d.rename(**{to: fm for to, fm in a["pairs"]})
        elif op == "modify":
            new = d.modify(**{a["name"]: value(a["col"], safe_nrow(d))})
        elif op in ("rbind", "cbind", "update"):
            new = getattr(d, op)(o)
        elif op in ("left", "inner", "semi", "anti", "full"):
            new = getattr(d, op + "_join")(o, "k")
        elif op == "deepcopy":
            new = d.deepcopy()
        elif op == "copy":
            new = d.copy()
        else:
            new = None
            if op == "setitem":
                n = safe_nrow(d) if d else len(e["col"])
                v = value(e["col"], n) if (len(e["col"]) in (1, n) or not d) else P.concrete(e["col"])
                if e.get("twod"):
                    v = di.DataFrameColumn(P.vector(e["col"], typed=True))[:, None]      # shape (n, 1), still a DataFrameColumn
                if e.get("via") == "attr":
                    setattr(d, e["name"], v)
                elif e.get("via") == "setdefault":
                    d.setdefault(e["name"], v)          # a new name: the dict way of assigning a column
                elif e.get("via") == "ior":
                    d |= {e["name"]: v}
                else:
                    d[e["name"]] = v
            elif op == "setcol":
                d[e["name"]] = o[e["oname"]]
            elif op == "delitem":
                del d[e["name"]]
            elif op == "delattr":
                delattr(d, e["name"])
            elif op == "pop":
                if e.get("via") == "popitem":
                    d.popitem()
                else:
                    d.pop(e["name"])
            elif op == "colnames":
                d.colnames = list(e["names"])
            elif op == "group_by":
                same = d.group_by(*e["cols"]) is d
            elif op == "poke":
                d[e["name"]][e["i"] - 1] = P.value(e["v"])
        if new is not None:
            self.frames.append(new)
        return same

    def step(self, e):
        err, same = "", True
        try:
            same = self.run(e)
        except Exception as ex:
            err = type(ex).__name__ + ": " + str(ex)[:80]
        return {"frames": self.observe(), "err": err, "same": bool(same)}


def rand_cells(rng, n, pal, p_na=0.25, distinct=False):
    k = min(len(pal.values), 3)
    if distinct:
        return [2 * i for i in range(n)]
    return [NA if (pal.has_na and rng.random() < p_na) else 2 * rng.randrange(k) for _ in range(n)]


ALL_OPS = ["gmodify", "gmodify"]


def random_event(rng, s, pal, focus=None):
    """A random call; the model's EventOK decides whether it is judged."""
    nf = len(s.frames)
    x = rng.randint(1, nf)
    d = s.frames[x - 1]
    cols = list(dict.keys(d))
    n = safe_nrow(d)
    op = rng.choice(focus) if (focus and rng.random() < 0.55) else rng.choice(ALL_OPS + ["filter", "filter_out", "slice", "slice_off", "head", "tail", "drop_na", "unique", "sort", "select",
                     "unselect", "rename", "modify", "rbind", "cbind", "update", "left", "inner", "semi", "anti", "full",
                     "deepcopy", "copy", "copy", "setitem", "setitem", "setitem", "setcol", "setcol", "delitem", "delattr", "pop",
                     "colnames", "group_by", "group_by", "poke", "poke", "poke", "ctor", "count", "split", "aggregate", "render"])
    e = {"op": op, "x": x}
    if op == "gmodify":
        grouped = [h + 1 for h, fr in enumerate(s.frames) if fr._group_colnames and safe_nrow(fr) >= 1]
        if not grouped:
            e["op"] = op = "group_by"
        else:
            e["x"] = rng.choice(grouped)
            e.update({"name": rng.choice(["x", "y", "a"]), "flen": rng.choice([1, 2, 2, 2, 3]), "vals": [2 * rng.randrange(2) for _ in range(3)]})
            # the interesting wrong lengths are those that still add up to nrow (groups of unequal size, n = G * flen)
            try:
                g = s.frames[e["x"] - 1]
                sizes = [len(ix) for ix in g.split(*g._group_colnames)]
                tot, G = sum(sizes), len(sizes)
                if G and tot % G == 0 and tot // G in (2, 3) and len(set(sizes)) > 1 and rng.random() < 0.8:
                    e["flen"] = tot // G
            except Exception:
                pass
            return e
    pick = lambda k=1: rng.sample(cols, min(k, len(cols)))
    if op in ("filter", "filter_out"):
        e["a"] = {"op": op, "mask": [rng.random() < 0.5 for _ in range(n)]}
    elif op in ("slice", "slice_off"):
        e["a"] = {"op": op, "idx": [rng.randrange(n) for _ in range(rng.randint(0, 3))] if n else []}
        if n and rng.random() < 0.4:          # a contiguous run, given as a range object
            lo = rng.randrange(n)
            e["a"]["idx"] = list(range(lo, rng.randint(lo, n - 1) + 1))
            e["form"] = "range"
    elif op in ("head", "tail"):
        e["a"] = {"op": op, "n": rng.randint(0, n + 1)}
    elif op in ("drop_na", "unique"):
        e["a"] = {"op": op, "cols": pick(rng.randint(1, 2))}
        if op == "unique" and rng.random() < 0.4:
            e["a"]["cols"] = []              # unique() without names: all columns
    elif op == "ctor":
        ln = rng.choice([1, 1, n, n, n + 1, 2])
        e.update({"name": rng.choice(cols + ["x", "y"]) if cols else "x", "col": rand_cells(rng, ln, pal), "scalar": rng.random() < 0.5})
    elif op in ("count", "split"):
        e["cols"] = pick(rng.randint(1, 2))
    elif op == "aggregate":
        grouped = [h + 1 for h, fr in enumerate(s.frames) if fr._group_colnames]
        if grouped:
            e["x"] = rng.choice(grouped)
        else:
            e["op"] = "render"
    elif op == "sort":
        ks = pick(rng.randint(1, 2))
        e["a"] = {"op": op, "keys": ks, "dirs": [rng.choice([1, 1, -1]) for _ in ks]}
    elif op in ("select", "unselect"):
        e["a"] = {"op": op, "names": pick(rng.randint(0 if op == "unselect" else 1, 3))}
    elif op == "rename":
        fm = pick(1)
        e["a"] = {"op": op, "pairs": [[rng.choice(["x", "y", "items", "a b"]), fm[0]]] if fm else []}
    elif op == "modify":
        nm = rng.choice(cols + ["x", "y"]) if cols else "x"
        ln = rng.choice([1, n])
        e["a"] = {"op": op, "name": nm, "col": rand_cells(rng, ln, pal)}
    elif op in ("rbind", "cbind", "update", "left", "inner", "semi", "anti", "full"):
        e["o"] = rng.randint(1, nf)
        if op in ("rbind", "cbind", "update"):
            e["a"] = {"op": op}
    elif op == "setitem":
        ln = rng.choice([1, 1, n, n, n + 1, 2, 0])
        e.update({"name": rng.choice(cols + ["x", "y", "items", "a b"]) if cols else "x", "col": rand_cells(rng, ln, pal)})
        if ln == n and n >= 1 and rng.random() < 0.12:
            e["twod"] = True
        r = rng.random()
        if e["name"].isidentifier() and e["name"] not in ("items", "sort") and r < 0.4:
            e["via"] = "attr"
        elif r < 0.55 and e["name"] not in cols:
            e["via"] = "setdefault"
        elif r < 0.7:
            e["via"] = "ior"
    elif op == "setcol":
        e["o"] = rng.randint(1, nf)
        oc = list(dict.keys(s.frames[e["o"] - 1]))
        e.update({"name": rng.choice(["x", "y"] + cols), "oname": rng.choice(oc) if oc else "k"})
    elif op in ("delitem", "delattr", "pop"):
        cand = [c for c in cols if op != "delattr" or (c.isidentifier() and c not in ("items", "sort"))]
        e["name"] = rng.choice(cand) if cand else "zz"
        if op == "pop" and cols and rng.random() < 0.3:
            e["name"], e["via"] = cols[-1], "popitem"
    elif op == "colnames":
        pool = list(dict.fromkeys(cols + ["x", "y", "items", "a b"]))
        rng.shuffle(pool)
        e["names"] = pool[:len(cols)]
    elif op == "group_by":
        e["cols"] = pick(rng.randint(0, 2))
        keyish = [c for c in cols if c not in ("r", "rr")]
        if keyish and rng.random() < 0.7:      # row-id columns make every group a single row: mostly group by the others
            e["cols"] = rng.sample(keyish, min(len(keyish), rng.randint(1, 2)))
    elif op == "poke":
        if pal is gamma.STR_FIXED or not cols or n == 0:
            e["op"] = "copy"
        else:
            e.update({"name": rng.choice(cols), "i": rng.randint(1, n), "v": 2 * rng.randrange(min(3, len(pal.values)))})
    return e


def plausible(s, e):
    try:
        return _plausible(s, e)
    except (KeyError, IndexError, TypeError):
        return False


def _plausible(s, e):
    """Cheap pre-filter so that few histories are cut at a call outside the supported inputs (EventOK in FrameSM.tla
    remains the judge of what is supported; this only steers the generator)."""
    fr = s.frames
    d = fr[e["x"] - 1]
    cols = list(dict.keys(d))
    n = safe_nrow(d)
    o = fr[e["o"] - 1] if "o" in e else None
    ocols = list(dict.keys(o)) if o is not None else []
    op = e["op"]
    a = e.get("a", {})
    if op in ("filter", "filter_out"):
        return bool(cols)
    if op == "drop_na":
        return bool(a["cols"])
    if op == "unique":
        return bool(cols)
    if op in ("count", "split"):
        return bool(e["cols"])
    if op == "aggregate":
        return bool(d._group_colnames) and all(c in cols for c in d._group_colnames)
    if op == "sort":
        return bool(a["keys"]) and all(dd == 1 or not any(gamma.is_missing(v) for v in np.asarray(d[k]).tolist())
                                       for k, dd in zip(a["keys"], a["dirs"]))
    if op == "select":
        return bool(a["names"])
    if op == "rename":
        return bool(a["pairs"]) and a["pairs"][0][0] not in cols
    if op == "modify":
        return bool(cols) and not d._group_colnames
    if op in ("cbind", "update"):
        return bool(cols) and bool(ocols) and safe_nrow(o) in (n, 1)
    if op in ("left", "inner", "semi", "anti", "full"):
        ok = "k" in cols and "k" in ocols and set(cols) & set(ocols) == {"k"}
        if ok and op == "full":
            ok = "r" in cols and "rr" in ocols
        return ok
    if op == "setcol":
        return bool(ocols) and (not cols or safe_nrow(o) == n)
    if op in ("delitem", "delattr", "pop"):
        return e["name"] in cols
    if op == "gmodify":
        return bool(d._group_colnames) and n >= 1 and all(c in cols for c in d._group_colnames)
    if op == "poke":
        return e.get("name") in cols and n > 0
    return True


def random_trace(rng, nsteps, focus=None):
    pal = rng.choice(SM_PALETTES)
    n1, n2 = rng.choice([0, 1, 2, 3, 3, 4]), rng.choice([0, 1, 2, 2, 3])
    if len(pal.values) < 4:
        n1 = min(n1, len(pal.values))
    init = [{"cols": ["k", "a", "r"], "cell": {"k": rand_cells(rng, n1, pal), "a": rand_cells(rng, n1, pal, 0.5), "r": rand_cells(rng, n1, pal, distinct=True)}},
            {"cols": ["k", "b", "rr"], "cell": {"k": rand_cells(rng, n2, pal), "b": rand_cells(rng, n2, pal, 0.5), "rr": rand_cells(rng, n2, pal, distinct=True)}}]
    if rng.random() < 0.3:
        init.append({"cols": [], "cell": {}})
    scenario = None
    if focus and "gmodify" in focus and len(pal.values) >= 4 and rng.random() < 0.4:
        # groups of unequal size whose sizes still add up to a multiple: 4 rows in groups of 3 + 1
        kcells = rng.choice([[0, 0, 0, 2], [2, 0, 0, 0], [0, 2, 0, 0], [0, 2, 0, 2], [2, 0, 2, 0],
                             [-1, -1, -1, 0] if pal.has_na else [2, 2, 0, 2]])
        init[0] = {"cols": ["k", "a", "r"], "cell": {"k": kcells, "a": rand_cells(rng, 4, pal, 0.5), "r": rand_cells(rng, 4, pal, distinct=True)}}
        scenario = [{"op": "group_by", "x": 1, "cols": ["k"]},
                    {"op": "gmodify", "x": 1, "name": rng.choice(["x", "a"]), "flen": rng.choice([1, 2, 2]),
                     "vals": [2 * rng.randrange(2) for _ in range(3)]}]
    elif focus and pal is not gamma.STR_FIXED and rng.random() < 0.25:
        # call -> in-place write into a key column of an operand -> the same call again (whatever the call remembered
        # about its operands must not survive the write)
        first = {"sort": {"op": "sort", "x": 1, "a": {"op": "sort", "keys": ["k"], "dirs": [1]}},
                 "unique": {"op": "unique", "x": 1, "a": {"op": "unique", "cols": ["k"]}},
                 "drop_na": {"op": "drop_na", "x": 1, "a": {"op": "drop_na", "cols": ["k"]}}}
        for j in ("left", "inner", "semi", "anti", "full"):
            first[j] = {"op": j, "x": 1, "o": 2}
        cand = [op for op in first if op in focus]
        nk = len(init[0]["cell"]["k"])
        if cand and nk >= 2 and len(init[1]["cell"]["k"]) >= 1:
            ev = first[rng.choice(cand)]
            tgt = 2 if ("o" in ev and rng.random() < 0.6) else 1
            nt = len(init[tgt - 1]["cell"]["k"])
            scenario = [ev, {"op": "poke", "x": tgt, "name": "k", "i": rng.randint(1, nt), "v": 2 * rng.randrange(min(3, len(pal.values)))},
                        json.loads(json.dumps(ev))]
    if scenario is None and focus and "unique" in focus and len(init[0]["cell"]["k"]) >= 2 and rng.random() < 0.2:
        # a frame that was grouped earlier (group_by marks the object itself), then this property's calls on it
        scenario = [{"op": "group_by", "x": 1, "cols": [rng.choice(["k", "a"])]},
                    rng.choice([{"op": "unique", "x": 1, "a": {"op": "unique", "cols": []}},
                                {"op": "unique", "x": 1, "a": {"op": "unique", "cols": ["a"]}},
                                {"op": "drop_na", "x": 1, "a": {"op": "drop_na", "cols": ["a"]}},
                                {"op": "head", "x": 1, "a": {"op": "head", "n": 2}}])]
    if scenario is None and focus and "full" in focus and len(init[1]["cell"]["k"]) >= 2 and rng.random() < 0.3:
        # an operand that was grouped earlier (group_by marks the object itself): right-hand or left-hand side of a join
        side = rng.choice([1, 2, 2])
        scenario = [{"op": "group_by", "x": side, "cols": [rng.choice(["k", "a"] if side == 1 else ["k", "b"])]},
                    {"op": rng.choice(["full", "full", "left", "inner", "semi", "anti"]), "x": 1, "o": 2}]
    s = Session(pal, init)
    tr = {"palette": pal.name, "init": init, "steps": []}
    for e in (scenario or []):
        e["obs"] = s.step(e)
        tr["steps"].append(e)
    last_grouped = None
    repeat = None          # (event, countdown): call -> in-place write into an operand -> the same call again
    for _ in range(nsteps):
        e = random_event(rng, s, pal, focus)
        for _try in range(8):
            if plausible(s, e):
                break
            e = random_event(rng, s, pal, focus)
        if repeat is not None:
            ev, stage = repeat
            if stage == 0:
                # write into a column of an operand of the earlier call (the right-hand key of a join, or the receiver)
                tgt = ev.get("o", ev["x"]) if rng.random() < 0.6 else ev["x"]
                td = s.frames[tgt - 1]
                tcols = list(dict.keys(td))
                if tcols and safe_nrow(td) and pal is not gamma.STR_FIXED:
                    name = "k" if ("k" in tcols and rng.random() < 0.7) else rng.choice(tcols)
                    e = {"op": "poke", "x": tgt, "name": name, "i": rng.randint(1, safe_nrow(td)), "v": 2 * rng.randrange(min(3, len(pal.values)))}
                    repeat = (ev, 1)
                else:
                    repeat = None
            else:
                e = {k: v for k, v in ev.items() if k != "obs"}
                repeat = None
        elif e["op"] in TRANSFORMING and e["op"] not in ("deepcopy", "gmodify") and rng.random() < (0.45 if focus else 0.3):
            repeat = (e, 0)
        # a grouped receiver is the interesting history for group-sensitive internals: follow a group_by
        # half of the time with a transforming call (joins first) on the frame that was just grouped
        if last_grouped is not None and rng.random() < 0.5:
            wanted = set(focus) - {"group_by"} if focus else {"full", "left", "inner", "semi", "anti", "rbind", "cbind", "update", "sort", "unique", "filter"}
            e2 = random_event(rng, s, pal, focus)
            for _try in range(12):
                if e2["op"] in wanted:
                    break
                e2 = random_event(rng, s, pal, focus)
            e2["x"] = last_grouped
            if e2["op"] in ("filter", "filter_out"):
                e2["a"]["mask"] = [rng.random() < 0.5 for _ in range(safe_nrow(s.frames[last_grouped - 1]))]
            if e2["op"] in ("full", "left", "inner", "semi", "anti"):
                if rng.random() < 0.5:
                    # the frame that was just grouped as the right-hand operand
                    cand = [h + 1 for h in range(len(s.frames)) if plausible(s, dict(e2, x=h + 1, o=last_grouped))]
                    if cand:
                        e2["x"], e2["o"] = rng.choice(cand), last_grouped
                else:
                    cand = [h + 1 for h in range(len(s.frames)) if plausible(s, dict(e2, o=h + 1))]
                    if cand:
                        e2["o"] = rng.choice(cand)
            if plausible(s, e2):
                e = e2
        last_grouped = e["x"] if e["op"] == "group_by" and e.get("cols") else None
        if len(s.frames) >= 7:
            break
        e["obs"] = s.step(e)
        tr["steps"].append(e)
    return tr


SKIPS = {}
GEN_INIT = [{"cols": ["k", "a", "r"], "cell": {"k": [0, -1, 0], "a": [2, 0, -1], "r": [0, 2, 4]}},       # FrameSMEvents!F1, F2
            {"cols": ["k", "b", "rr"], "cell": {"k": [2, 0], "b": [-1, 4], "rr": [0, 2]}}]
GEN_PALETTES = [p for p in SM_PALETTES if p.has_na and len(p.values) >= 3 and p is not gamma.STR_FIXED]


def replay_behaviour(rng, hist):
    """Replays one TLC-generated behaviour of FrameSMGen on real frames built from a random palette."""
    pal = rng.choice(GEN_PALETTES)
    s = Session(pal, GEN_INIT)
    tr = {"palette": pal.name, "init": GEN_INIT, "steps": []}
    for e0 in hist:
        e = json.loads(json.dumps(e0))
        e["obs"] = s.step(e)
        tr["steps"].append(e)
    return tr


PREFIX = {"C01": ("C01:",), "C06": ("C06:",)}


def owns(prop, clause, op):
    """Which check reports a rejected step of a history: C01 / C06 their own clause families (C01 also every unexpected
    exception); a wrong result of a transforming call inside a history belongs to the property that owns that call."""
    if prop in PREFIX:
        return clause.startswith(PREFIX[prop]) or (prop == "C01" and clause.startswith(("SM:raised", "SM:no-new-frame")))
    return clause.startswith(("SM:wrong-result", "SM:raised", "SM:full_join", "C01:length-mismatch")) and op in FOCUS.get(prop, [])


def sig_of(clause, tr, step):
    e = tr["steps"][step - 1]
    s = {"op": e["op"]}
    x = e["x"]
    prev = tr["steps"][step - 2]["obs"]["frames"] if step >= 2 else None
    if prev is not None and x <= len(prev):
        s["receiver_grouped"] = bool(prev[x - 1]["grp"])
    return s


def histories_for(ctx, prop, ntr):
    """Focused histories for a single-call property: its own calls inside call sequences (grouped receivers, in-place
    writes between two identical calls, shallow copies ...), validated by FrameSMTrace; reports what it owns."""
    rng = ctx.rng
    traces = [random_trace(rng, rng.randint(3, 7), FOCUS[prop]) for _ in range(ntr)]
    bad = validate(ctx, traces)
    n = 0
    for ti, step, clause in bad:
        e = traces[ti]["steps"][step - 1]
        if owns(prop, clause, e["op"]):
            parts = clause.split(":")
            ctx.fail("history:" + ":".join(parts[:2]), dict(sig_of(clause, traces[ti], step), detail=clause),
                     {"history": traces[ti], "failing_step": step, "clause": clause})
            n += 1
    ctx.extra["history_traces"] = len(traces)
    ctx.extra["history_steps"] = sum(len(t["steps"]) for t in traces)
    ctx.rule += (" | plus %d seeded call histories (FrameSM) focused on this property's calls, incl. call -> in-place write into an "
                 "operand -> same call again, validated step by step by FrameSMTrace" % len(traces))
    return n


def run_for(ctx, prop):
    from props import c17
    quick = ctx.tier == "quick"
    cfg = ("SPECIFICATION Spec\nINVARIANT Inv\nPROPERTY Safe\nCONSTRAINT DepthOK\nCONSTANTS\n  MaxFrames = 6\n  MaxDepth = %d\n"
           % (3 if quick else 4))
    ctx.model_check("FrameSMMC", cfg_text=cfg, timeout=3400, heap="12g")
    rng = ctx.rng
    ntr = 1200 if quick else 15000
    traces = [random_trace(rng, rng.randint(2, 7), FOCUS["C04"] if rng.random() < 0.15 else None) for _ in range(ntr)]
    # spec -> code: every behaviour of the session machine enumerated by TLC (FrameSMGen) is replayed call by call
    gcfg = "INIT Init\nNEXT Next\nINVARIANT Inv\nCONSTANTS\n  MaxFrames = 6\n  Depth = %d\n"
    rg = ctx.model_check("FrameSMGen", cfg_text=gcfg % 2, timeout=3000)
    behaviours = [j["hist"] for j in rg.json_lines if "hist" in j]
    if quick:
        behaviours = rng.sample(behaviours, min(len(behaviours), 800))
    else:
        rg3 = ctx.model_check("FrameSMGen", cfg_text=gcfg % 3, timeout=3400, heap="12g")
        b3 = [j["hist"] for j in rg3.json_lines if "hist" in j]
        behaviours += rng.sample(b3, min(len(b3), 20000))
    ctx.extra["tlc_generated_behaviours_replayed"] = len(behaviours)
    for hist in behaviours:
        traces.append(replay_behaviour(rng, hist))
    bad = validate(ctx, traces)
    mine = PREFIX[prop]
    others = {}
    for ti, step, clause in bad:
        base = clause
        if owns(prop, clause, traces[ti]["steps"][step - 1]["op"]):
            parts = clause.split(":")
            ctx.fail(":".join(parts[:2]), dict(sig_of(clause, traces[ti], step), detail=clause),
                     {"trace": traces[ti], "failing_step": step, "clause": clause})
        else:
            others[base] = others.get(base, 0) + 1
    for k, v in sorted(others.items()):
        ctx.notes.append("clause outside %s seen %d times (reported by the check that owns it): %s" % (prop, v, k))
    ops = {}
    nsteps = 0
    for t in traces:
        for s in t["steps"]:
            ops[s["op"]] = ops.get(s["op"], 0) + 1
            nsteps += 1
        if len(t["steps"]) >= 3:
            ctx.nontrivial.add(json.dumps([[s["op"], s["x"], s.get("o", 0)] for s in t["steps"]]) + t["palette"])
    ctx.evaluations = nsteps
    for t in traces[:: max(1, len(traces) // 4)][:4]:
        ctx.sample({"palette": t["palette"], "init": t["init"],
                    "steps": [{k: v for k, v in s.items() if k != "obs"} for s in t["steps"]]})
    ctx.extra["steps_per_op"] = ops
    ctx.extra["histories_cut_at_unsupported_call_per_op"] = dict(SKIPS)
    ctx.extra["histories"] = len(traces)
    ctx.exhaustive = False
    ctx.rule = ("FrameSMMC explores the DataFrame session machine (transforming calls, copy, in-place item/attribute assignment "
                "incl. broadcast and wrong lengths, deletion, pop, colnames, group_by, element pokes; buffer heap) exhaustively to "
                "depth %d checking WellFormed, FreshResult, OperandsUntouched, PokeLocal; %d seeded histories of 2-7 calls on 2-3 seed "
                "frames (0-3 rows, all-NA columns, 0-column frame; 10 dtype palettes) are executed, observing after every call every "
                "frame's columns, cells, memory-sharing partition, grouping and attribute/key coherence for 9 names (incl. a method-"
                "clashing and a non-identifier name); validated step by step by FrameSMTrace. non-trivial = distinct histories of >= 3 calls"
                % (3 if quick else 4, ntr))
    ctx.assumptions += ["aliasing created by data[name] = other[col] is a free point (the monitor adopts what it observes)",
                        "descending sort keys are used only on columns without missing values inside histories (NA side is free)",
                        "np.shares_memory / object identity is the trusted aliasing observation",
                        "long-string palettes are not used in histories (NumPy 2.0.2 repeat crash on broadcast, see DESIGN)"]


def validate(ctx, traces, chunk=3000):
    import os, shutil
    from harness import tlc as _tlc
    out = []
    for off in range(0, len(traces), chunk):
        part = traces[off:off + chunk]
        d = _tlc.scratch("verif-trace-")
        try:
            path = os.path.join(d, "trace.json")
            _tlc.write_json(path, part)
            r = ctx.tlc("FrameSMTrace", env={"TRACE_FILE": path}, cont=True, timeout=3400, heap="12g")
            for j in r.json_lines:
                if isinstance(j, dict) and "SKIP" in j:
                    SKIPS[j["SKIP"]] = SKIPS.get(j["SKIP"], 0) + 1
            seen = set()
            for b in r.bad:
                k = (b["tid"], b["step"], b["BAD"])
                if k not in seen:
                    seen.add(k)
                    out.append((off + b["tid"] - 1, b["step"], b["BAD"]))
            if r.invariant_violated and not r.bad:
                raise _tlc.TLCError("trace spec violation without BAD record:\n" + "\n".join(r.stdout.splitlines()[-40:]))
            ctx.validated += len(part)
        finally:
            shutil.rmtree(d, ignore_errors=True)
    return out


def run(ctx):
    run_for(ctx, "C01")


def replay_for(ctx, rp, prop):
    for case in rp["cases"]:
        tr0 = case["trace"]
        pal = gamma.BY_NAME[tr0["palette"]]
        s = Session(pal, tr0["init"])
        tr = {"palette": tr0["palette"], "init": tr0["init"], "steps": []}
        for e0 in tr0["steps"]:
            e = {k: v for k, v in e0.items() if k != "obs"}
            e["obs"] = s.step(e)
            tr["steps"].append(e)
        bad = validate(ctx, [tr])
        for _, step, clause in bad:
            if owns(prop, clause, tr["steps"][step - 1]["op"]):
                ctx.fail(":".join(clause.split(":")[:2]), dict(sig_of(clause, tr, step), detail=clause), {"trace": tr, "failing_step": step})
        print("replayed history of", len(tr["steps"]), "calls ->", [(s_, c) for _, s_, c in bad] or "accepted")


def replay(ctx, rp):
    replay_for(ctx, rp, "C01")
