#!/bin/sh
# Offline setup: verifies the tools the checks need and parses every spec module. Fetches nothing.
cd "$(dirname "$0")" || exit 2
mkdir -p evidence replays
command -v java >/dev/null || { echo "java missing"; exit 1; }
command -v tlc >/dev/null || { echo "tlc missing"; exit 1; }
/venv/bin/python -c "import numpy, dataiter, hypothesis" || { echo "python deps missing"; exit 1; }
/venv/bin/python - <<'PY' || exit 1
import sys, os
sys.path.insert(0, os.getcwd())
from harness import tlc
bad = 0
for f in sorted(os.listdir("spec")):
    if f.endswith(".tla"):
        ok, out = tlc.sany(f[:-4])
        if not ok:
            bad += 1
            print("SANY FAILED", f); print(out[-2000:])
print("spec modules parsed; failures:", bad)
sys.exit(1 if bad else 0)
PY
