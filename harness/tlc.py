"""Thin driver around TLC / SANY.

Every TLC run happens in a private scratch directory (mkdtemp) that is removed
afterwards; the specs are read from /verif/spec (copied into the scratch dir so
that TLC's generated files never land in the repository).
"""
import json
import os
import re
import shutil
import subprocess
import tempfile
import time

VERIF = os.path.dirname(os.path.dirname(os.path.abspath(__file__)))
SPEC = os.path.join(VERIF, "spec")
JAR = "/opt/veriftools/tla/tla2tools.jar"


class TLCError(Exception):
    """The machinery itself failed (parse error, TLC crash, timeout)."""


class TLCResult:
    def __init__(self):
        self.stdout = ""
        self.returncode = None
        self.states_generated = 0
        self.distinct_states = 0
        self.json_lines = []      # decoded PrintT(ToJson(..)) payloads
        self.bad = []             # decoded BAD records (monitor verdicts)
        self.invariant_violated = []
        self.coverage = {}        # action name -> count (when -coverage used)
        self.wall_s = 0.0
        self.ok = False


_STATS = re.compile(r"^(\d+) states generated, (\d+) distinct states found", re.M)
_INV = re.compile(r"Invariant (\S+) is violated")
_COV = re.compile(r"^<(\w+) line \d+, col \d+ to line \d+, col \d+ of module (\w+)>: (\d+):(\d+)", re.M)


def scratch(prefix="verif-"):
    return tempfile.mkdtemp(prefix=prefix)


def _copy_specs(dst):
    for f in os.listdir(SPEC):
        if f.endswith(".tla") or f.endswith(".cfg"):
            shutil.copy(os.path.join(SPEC, f), dst)


def run(module, cfg=None, *, workers=16, env=None, timeout=1800, simulate=None,
        depth=None, seed=None, coverage=False, cont=False, constants=None,
        cfg_text=None, want_json=True, deadlock=False, heap="6g"):
    """Run TLC on spec/<module>.tla with spec/<cfg>.cfg (or cfg_text).

    Returns a TLCResult.  Raises TLCError on parse errors / crashes / timeouts.
    Lines printed by PrintT(ToJson(r)) are decoded into json_lines; records
    having key "BAD" go to .bad instead.
    """
    d = scratch("verif-tlc-")
    t0 = time.time()
    try:
        _copy_specs(d)
        cfgname = cfg or module
        if cfg_text is not None:
            cfgname = module + "_run"
            with open(os.path.join(d, cfgname + ".cfg"), "w") as f:
                f.write(cfg_text)
        cmd = ["java", "-XX:+UseParallelGC", "-Xmx" + heap, "-cp", JAR + ":/opt/veriftools/tla/CommunityModules-deps.jar",
               "tlc2.TLC"]
        # use the wrapper on PATH if it exists (keeps the CommunityModules classpath right)
        if shutil.which("tlc"):
            cmd = ["tlc"]
        cmd += ["-workers", str(workers), "-metadir", os.path.join(d, "meta"),
                "-noGenerateSpecTE", "-config", cfgname + ".cfg"]
        if not deadlock:
            cmd += ["-deadlock"]
        if simulate:
            cmd += ["-simulate", simulate]
        if depth:
            cmd += ["-depth", str(depth)]
        if seed is not None:
            cmd += ["-seed", str(seed)]
        if coverage:
            cmd += ["-coverage", "1"]
        if cont:
            cmd += ["-continue"]
        cmd += [module]
        e = dict(os.environ)
        # (TLC creates a tlc-<n> directory in java.io.tmpdir on every run: keep it inside the scratch directory)
        e.setdefault("JAVA_TOOL_OPTIONS", "-Xmx" + heap + " -Djava.io.tmpdir=" + d)
        if env:
            e.update({k: str(v) for k, v in env.items()})
        try:
            p = subprocess.run(cmd, cwd=d, env=e, stdout=subprocess.PIPE, stderr=subprocess.STDOUT,
                               timeout=timeout, text=True, errors="replace")
        except subprocess.TimeoutExpired as ex:
            subprocess.run(["pkill", "-f", d], check=False)
            raise TLCError(f"TLC timeout after {timeout}s on {module}") from ex
        r = TLCResult()
        r.stdout = p.stdout
        r.returncode = p.returncode
        r.wall_s = time.time() - t0
        m = None
        for m in _STATS.finditer(p.stdout):
            pass
        if m:
            r.states_generated = int(m.group(1))
            r.distinct_states = int(m.group(2))
        r.invariant_violated = _INV.findall(p.stdout)
        if coverage:
            for mm in _COV.finditer(p.stdout):
                r.coverage[mm.group(1)] = r.coverage.get(mm.group(1), 0) + int(mm.group(3))
        if want_json:
            for line in p.stdout.splitlines():
                if line.startswith('"{') or line.startswith('"['):
                    try:
                        rec = json.loads(json.loads(line))
                    except Exception:
                        continue
                    if isinstance(rec, dict) and "BAD" in rec:
                        r.bad.append(rec)
                    else:
                        r.json_lines.append(rec)
        fatal = False
        for line in p.stdout.splitlines():
            if line.startswith("Error:") and not (
                    ("Invariant" in line and "is violated" in line) or
                    line.startswith("Error: The behavior up to this point is") or
                    "is violated" in line):
                fatal = True
        if ("Parsing or semantic analysis failed" in p.stdout or "java.lang.OutOfMemoryError" in p.stdout
                or "TLC threw an unexpected exception" in p.stdout):
            fatal = True
        done = ("Model checking completed" in p.stdout or "Finished in" in p.stdout or
                "Simulation" in p.stdout)
        if fatal or (not done):
            tail = "\n".join(p.stdout.splitlines()[-40:])
            raise TLCError(f"TLC failed on {module} ({cfgname}):\n{tail}")
        r.ok = (not r.invariant_violated) and p.returncode == 0
        return r
    finally:
        shutil.rmtree(d, ignore_errors=True)


def sany(module):
    d = scratch("verif-sany-")
    try:
        _copy_specs(d)
        p = subprocess.run(["tla-sany", module + ".tla"], cwd=d, stdout=subprocess.PIPE,
                           stderr=subprocess.STDOUT, text=True, timeout=120)
        ok = p.returncode == 0 and "Fatal errors" not in p.stdout and "*** Errors" not in p.stdout \
            and "Could not find module" not in p.stdout
        return ok, p.stdout
    finally:
        shutil.rmtree(d, ignore_errors=True)


def _np_default(o):
    import numpy as np
    if isinstance(o, np.bool_):
        return bool(o)
    if isinstance(o, np.integer):
        return int(o)
    if isinstance(o, np.floating):
        return float(o)
    raise TypeError("not JSON serialisable: %r" % type(o))


def write_json(path, obj):
    with open(path, "w") as f:
        json.dump(obj, f, separators=(",", ":"), default=_np_default)
