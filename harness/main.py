import sys
import warnings
warnings.filterwarnings("ignore")
from .core import main

MODULES = {
    "C01": "props.c01",
    "C02": "props.c02",
    "C03": "props.c03",
    "C04": "props.c04",
    "C05": "props.c05",
    "C06": "props.c06",
    "C07": "props.c07",
    "C08": "props.c08",
    "C09": "props.c09",
    "C10": "props.c10",
    "C11": "props.c11",
    "C12": "props.c12",
    "C13": "props.c13",
    "C14": "props.c14",
    "C15": "props.c15",
    "C16": "props.c16",
    "C17": "props.c17",
    "C18": "props.c18",
    "C19": "props.c19",
    "C20": "props.c20",
}

if __name__ == "__main__":
    sys.exit(main(sys.argv[1:], MODULES))
