"""Shared run context for every property check: TLC accounting, failure
collection, known-findings matching, replay files, evidence files."""
import hashlib
import json
import os
import random
import sys
import time

from . import tlc as _tlc

VERIF = os.path.dirname(os.path.dirname(os.path.abspath(__file__)))
EVIDENCE = os.path.join(VERIF, "evidence")
REPLAYS = os.path.join(VERIF, "replays")
FINDINGS = os.path.join(VERIF, "known_findings.json")


def load_findings():
    if not os.path.exists(FINDINGS):
        return []
    with open(FINDINGS) as f:
        return json.load(f).get("findings", [])


def _match_value(want, got):
    if isinstance(want, list):
        return got in want
    return want == got


def finding_for(prop, clause, sig, findings):
    """A failure is a known finding only if the clause and every trigger field match."""
    for f in findings:
        if f.get("status") != "known" or f.get("property") != prop:
            continue
        if not _match_value(f["outcome"]["clause"], clause):
            continue
        trig = f.get("trigger", {})
        if all(k in sig and _match_value(v, sig[k]) for k, v in trig.items()):
            return f
    return None


class Ctx:
    def __init__(self, prop, tier, seed, replay=None):
        self.prop = prop
        self.tier = tier
        self.seed = seed
        self.rng = random.Random(seed)
        self.replay = replay
        self.t0 = time.time()
        self.states = 0
        self.transitions = 0
        self.tlc_runs = []
        self.validated = 0          # executions whose verdict came from the spec
        self.evaluations = 0
        self.nontrivial = set()
        self.samples = []
        self.failures = []          # dicts: clause, sig, case
        self.skipped = {}
        self.extra = {}
        self.assumptions = []
        self.exhaustive = None
        self.rule = ""
        self.actions = {}
        self.notes = []

    # ---- TLC ----
    def tlc(self, module, cfg=None, **kw):
        r = _tlc.run(module, cfg, **kw)
        self.states += r.distinct_states
        self.transitions += r.states_generated
        self.tlc_runs.append({"module": module, "cfg": cfg or kw.get("cfg_text") and "inline" or module,
                              "distinct_states": r.distinct_states, "states_generated": r.states_generated,
                              "wall_s": round(r.wall_s, 2)})
        for k, v in r.coverage.items():
            self.actions[k] = self.actions.get(k, 0) + v
        return r

    def model_check(self, module, cfg=None, **kw):
        """Model-check the property on the specification; a failure here is a
        machinery failure (the model contradicts itself), not a verdict on the code."""
        r = self.tlc(module, cfg, **kw)
        if r.invariant_violated or r.returncode != 0:
            tail = "\n".join(r.stdout.splitlines()[-60:])
            raise _tlc.TLCError(f"model-level property failed in {module}: {r.invariant_violated}\n{tail}")
        return r

    def validate(self, module, records, cfg=None, chunk=40000, workers=16, env=None, timeout=3600):
        """Ship recorded executions to a monitor-style trace spec.  Returns a
        list of (index, clause) for rejected records."""
        out = []
        for off in range(0, len(records), chunk):
            part = records[off:off + chunk]
            d = _tlc.scratch("verif-trace-")
            try:
                path = os.path.join(d, "trace.json")
                _tlc.write_json(path, part)
                e = {"TRACE_FILE": path}
                if env:
                    e.update(env)
                r = self.tlc(module, cfg, env=e, cont=True, workers=workers, timeout=timeout)
                seen = set()
                for b in r.bad:
                    key = (b["tid"], b["BAD"])
                    if key in seen:
                        continue
                    seen.add(key)
                    out.append((off + b["tid"] - 1, b["BAD"]))
                if r.invariant_violated and not r.bad:
                    raise _tlc.TLCError("trace spec reported a violation without a BAD record:\n" +
                                        "\n".join(r.stdout.splitlines()[-40:]))
                self.validated += len(part)
            finally:
                import shutil
                shutil.rmtree(d, ignore_errors=True)
        return out

    # ---- bookkeeping ----
    def count(self, key=None, nontrivial=False):
        self.evaluations += 1
        if nontrivial and key is not None:
            self.nontrivial.add(key)

    def skip(self, reason):
        self.skipped[reason] = self.skipped.get(reason, 0) + 1

    def sample(self, s, cap=6):
        if len(self.samples) < cap:
            self.samples.append(s)

    def fail(self, clause, sig, case):
        self.failures.append({"clause": clause, "sig": sig, "case": case})

    # ---- finish ----
    def finish(self):
        findings = load_findings()
        if os.environ.get("VERIF_DEBUG"):
            agg = {}
            for f in self.failures:
                k = (f["clause"], json.dumps({a: b for a, b in f["sig"].items() if a != "palette"}, sort_keys=True))
                agg[k] = agg.get(k, 0) + 1
            for k, n in sorted(agg.items()):
                print("DEBUG", n, k[0], k[1], file=sys.stderr)
        known = {}
        viol = {}
        for f in self.failures:
            kf = finding_for(self.prop, f["clause"], f["sig"], findings)
            if kf is not None:
                known.setdefault(kf["id"], [kf, 0, f])
                known[kf["id"]][1] += 1
            else:
                key = f["clause"] + "|" + json.dumps(f["sig"], sort_keys=True)
                viol.setdefault(key, []).append(f)
        for fid, (kf, n, first) in sorted(known.items()):
            print(f"KNOWN-FINDING: property={self.prop} {fid}: {kf['what']} ({n} cases this run)")
        os.makedirs(REPLAYS, exist_ok=True)
        nviol = 0
        for key, fs in sorted(viol.items()):
            nviol += 1
            if nviol > 25:
                continue
            h = hashlib.sha1(key.encode()).hexdigest()[:10]
            path = os.path.join(REPLAYS, f"{self.prop}-{h}.json")
            with open(path, "w") as fh:
                json.dump({"property": self.prop, "clause": fs[0]["clause"], "sig": fs[0]["sig"],
                           "count": len(fs), "seed": self.seed, "tier": self.tier,
                           "cases": [x["case"] for x in fs[:5]]}, fh, indent=1, default=str)
            print(f"VIOLATION property={self.prop} replay={path}")
            print(f"  clause={fs[0]['clause']} sig={json.dumps(fs[0]['sig'], sort_keys=True)} cases={len(fs)}")
        if nviol > 25:
            print(f"  ... {nviol - 25} more distinct violation signatures not written out")
        if self.replay is None and not os.environ.get("VERIF_NO_EVIDENCE"):
            # (mutant sweeps on scratch copies set VERIF_NO_EVIDENCE: evidence describes /repo only)
            self.write_evidence(nviol, known)
        for n in self.notes:
            print("NOTE " + n)
        return 1 if nviol else 0

    def write_evidence(self, nviol, known):
        os.makedirs(EVIDENCE, exist_ok=True)
        cov = {
            "states": self.states,
            "transitions": self.transitions,
            "traces_validated_against_impl": self.validated,
            "samples": self.samples or [{"note": "no sample recorded"}],
            "evaluations": self.evaluations,
            "distinct_nontrivial": len(self.nontrivial),
            "rule": self.rule,
            "tlc_runs": self.tlc_runs,
            "skipped": self.skipped,
            "known_findings_hit": {k: v[1] for k, v in known.items()},
        }
        if self.actions:
            cov["actions"] = self.actions
            cov["uncovered"] = sorted(k for k, v in self.actions.items() if v == 0)
        if self.exhaustive is not None:
            cov["exhaustive"] = bool(self.exhaustive)
        cov.update(self.extra)
        ev = {"property_id": self.prop, "tier": self.tier, "seed": self.seed, "level": "model_checking",
              "coverage": cov, "assumptions": self.assumptions, "wall_s": round(time.time() - self.t0, 2),
              "violations": nviol}
        with open(os.path.join(EVIDENCE, self.prop + ".json"), "w") as f:
            json.dump(ev, f, indent=1, default=str)


def main(argv, modules):
    import argparse
    import importlib
    ap = argparse.ArgumentParser()
    ap.add_argument("prop")
    ap.add_argument("--tier", default=os.environ.get("VERIF_TIER", "quick"), choices=["quick", "thorough"])
    ap.add_argument("--replay", default=None)
    ap.add_argument("--seed", type=int, default=int(os.environ.get("VERIF_SEED", "0") or 0))
    a = ap.parse_args(argv)
    prop = a.prop.upper()
    if prop not in modules:
        print(f"unknown property {prop}", file=sys.stderr)
        return 2
    os.environ.setdefault("PYTHONHASHSEED", "0")
    os.environ.setdefault("COLUMNS", "80")
    mod = importlib.import_module(modules[prop])
    ctx = Ctx(prop, a.tier, a.seed, replay=a.replay)
    try:
        if a.replay:
            with open(a.replay) as f:
                rp = json.load(f)
            mod.replay(ctx, rp)
        else:
            mod.run(ctx)
        return ctx.finish()
    except _tlc.TLCError as e:
        print(f"MACHINERY-FAILURE property={prop}: {e}", file=sys.stderr)
        return 2
