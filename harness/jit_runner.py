"""Runs one process segment of a C08 history: every call once with USE_NUMBA on and once off in this
interpreter, on identical data; prints one JSON line per call.  Started by props/c08.py with
DATAITER_USE_NUMBA=true, DATAITER_USE_NUMBA_CACHE=<per history>, NUMBA_CACHE_DIR=<per history>."""
import datetime
import json
import math
import sys

import numpy as np

import dataiter as di

NAV = -99
BASE = datetime.date(2000, 1, 1)
LAYOUTS = [
    ([0, 0, 0, 1, 1, 2, 3, 3, 3], [1, NAV, 2, NAV, NAV, 3, 0, 2, 2]),
    ([0, 1, 0, 1, 2], [2, 0, NAV, 0, 1]),
    ([5], [NAV]),
    ([0, 0, 1, 1, 1, 1], [3, 3, 1, 0, 1, 0]),
    # a group of 20 rows with interleaved ties for the most common value (size-dependent sort kernels), one of 3
    ([0] * 20 + [1] * 3, [2, 1, 3, 1, 2, 0, 2, 1, 3, 1, 2, 0, 3, 3, 0, 1, 2, 0, 3, 0, 2, 2, 1]),
    # missing values interleaved with values, and a group with two missing values and one value
    ([0, 0, 0, 0, 1, 1, 1, 2, 2, 2, 2], [NAV, 1, NAV, 1, NAV, NAV, 1, 2, NAV, 0, 2]),
    # descending values inside groups (an in-place sort would be visible to a later order-sensitive helper)
    ([0, 0, 0, 1, 1, 1, 1], [3, 2, 0, 2, 3, 1, 0]),
    # a missing value first and every element once (mode ties: the missing value wins when it is not dropped)
    ([0, 0, 0, 1, 1, 1], [NAV, 2, 1, 3, NAV, 0]),
    # a missing value between two equal values (a sort that does not order missing values splits the run)
    ([0, 0, 0, 1, 1, 1, 1], [2, NAV, 2, 1, NAV, 1, 3]),
]
FN = {"all": np.all, "any": np.any, "count": len, "max": np.amax, "mean": np.mean, "median": np.median,
      "min": np.amin, "std": np.std, "sum": np.sum, "var": np.var}


def column(kind, xs, big=False):
    if big and kind == "float":
        # large magnitude relative to the spread: one-pass variance formulas lose all precision here
        return di.Vector([math.nan if v == NAV else 1.7e9 + v for v in xs], float)
    return column0(kind, xs)


def column0(kind, xs):
    if kind == "bool":
        return di.Vector([bool(v % 2) if v != NAV else False for v in xs], bool)
    if kind == "int":
        return di.Vector([v if v != NAV else 7 for v in xs], int)
    if kind == "float":
        return di.Vector([math.nan if v == NAV else v / 2 for v in xs], float)
    if kind == "float32":
        return di.Vector(np.array([math.nan if v == NAV else v / 2 for v in xs], dtype=np.float32))
    if kind == "date":
        return di.Vector([None if v == NAV else BASE + datetime.timedelta(days=v) for v in xs], "datetime64[D]")
    if kind == "timedelta":
        return di.Vector(np.array(["NaT" if v == NAV else v for v in xs], dtype="timedelta64[s]"))
    if kind == "datetime":
        return di.Vector([None if v == NAV else datetime.datetime(2000, 1, 1, 12) + datetime.timedelta(hours=v) for v in xs],
                         "datetime64[us]")
    raise ValueError(kind)


def helper(h, a):
    f = getattr(di, h)
    kw = {}
    if h not in ("all", "any"):
        kw["drop_na"] = a["dropna"]
    if h == "nth":
        return f("x", a["idx"], **kw)
    if h == "quantile":
        return f("x", a["q4"] / 4, **kw)
    if h in ("std", "var"):
        kw["ddof"] = a.get("ddof", 0)
    return f("x", **kw)


def dispatcher(h):
    agg = di.aggregate
    if h in FN:
        return agg.generic_numba(FN[h])
    return {"count_unique": agg.count_unique_apply_numba, "mode": agg.mode_apply_numba, "first": agg.nth_apply_numba,
            "last": agg.nth_apply_numba, "nth": agg.nth_apply_numba, "quantile": agg.quantile_apply_numba}[h]


def stats(d):
    try:
        return (len(d.signatures), sum(d.stats.cache_hits.values()), sum(d.stats.cache_misses.values()))
    except Exception:
        return None


def norm(v):
    if isinstance(v, np.generic) and not isinstance(v, (np.datetime64, np.timedelta64)):
        v = v.item()
    if v is None:
        return None
    if isinstance(v, (np.datetime64, np.timedelta64)):
        return None if np.isnat(v) else str(v)
    if isinstance(v, float):
        return None if math.isnan(v) else v
    if isinstance(v, str):
        return None if v == "" else v
    if isinstance(v, (bool, int)):
        return v
    return str(v)


def run(call):
    g, xs = call["data"] if call.get("data") else LAYOUTS[call["layout"]]
    out = {"err": "", "numba": [], "python": [], "tn": "", "tp": "", "status": ""}
    try:
        d = di.DataFrame(g=di.Vector(g, int), x=column(call["kind"], xs, call.get("big", False)))
        disp = dispatcher(call["h"])
        before = stats(disp)
        h2 = call.get("h2", "")
        def agg(frame):
            kw = {"y": helper(call["h"], call["a"])}
            if h2:
                kw["z"] = helper(h2, call["a"])
            return frame.deepcopy().group_by("g").aggregate(**kw)
        di.USE_NUMBA = True
        try:
            rn = agg(d)
        finally:
            di.USE_NUMBA = False
        after = stats(disp)
        rp = agg(d)
        out["numba"] = [norm(v) for v in rn.y]
        out["python"] = [norm(v) for v in rp.y]
        out["tn"], out["tp"] = rn.y.dtype.kind, rp.y.dtype.kind
        if h2:
            out["numba2"] = [norm(v) for v in rn.z]
            out["python2"] = [norm(v) for v in rp.z]
            out["tn2"], out["tp2"] = rn.z.dtype.kind, rp.z.dtype.kind
        if before and after:
            out["status"] = "reused" if after[0] == before[0] else ("loaded" if after[1] > before[1] else "compiled")
    except Exception as e:
        out["err"] = type(e).__name__ + ": " + str(e)[:120]
    return out


if __name__ == "__main__":
    calls = json.load(open(sys.argv[1]))
    assert di.USE_NUMBA, "numba not active"
    for c in calls:
        print("RESULT " + json.dumps(run(c)), flush=True)
