"""Concretisation (gamma) and abstraction (alpha) between abstract cells and
concrete Python/NumPy values.

Abstract cell: -1 = NA; c >= 0 has class K = c // 2 and variant c % 2 (odd =
"twin": same class, different representation, only where the palette has one).
A palette lists concrete values in ascending order of the order the property
names for that kind (numeric, code point, chronological, False < True).
"""
import datetime as _dt
import math
import struct

import numpy as np

NA = -1
ALIEN = -99

LONG = "x" * 55  # >= 50 characters: disables the fixed-width fast path


class Palette:
    def __init__(self, name, kind, values, *, twins=None, na=None, has_na=True,
                 dtype=None, as_array=False, orderable=True, full_dtype=None):
        self.name = name
        self.kind = kind
        self.values = list(values)        # index = class
        self.twins = dict(twins or {})    # class -> twin value
        self.na = na                      # what to put into a list for NA
        self.has_na = has_na
        self.dtype = dtype                # explicit dtype for construction (or None)
        self.as_array = as_array          # build through np.array (legacy dtypes)
        self.orderable = orderable
        self.full_dtype = full_dtype      # dtype naming the kind (used when nothing can be inferred)

    # ---- gamma ----
    def supports(self, cells):
        for c in cells:
            if c == NA:
                if not self.has_na:
                    return False
            else:
                if c // 2 >= len(self.values):
                    return False
                if c % 2 == 1 and (c // 2) not in self.twins:
                    return False
        return True

    def value(self, c):
        if c == NA:
            return self.na
        if c % 2 == 1:
            return self.twins[c // 2]
        return self.values[c // 2]

    def concrete(self, cells):
        return [self.value(c) for c in cells]

    def vector(self, cells, typed=False):
        """The real Vector for these cells.  With typed=True, or when the cells
        hold no non-missing value to infer a type from, the kind's dtype is given
        explicitly (so "an entirely missing float vector" really is one)."""
        import dataiter as di
        vals = self.concrete(cells)
        dtype = self.dtype
        if dtype is None and (typed or all(c == NA for c in cells)):
            dtype = self.full_dtype
        if self.as_array:
            arr = np.array(vals, dtype=dtype) if dtype else np.array(vals)
            return di.Vector(arr)
        if dtype is not None:
            return di.Vector(vals, dtype)
        return di.Vector(vals)

    # ---- alpha ----
    def alpha(self, x):
        """Concrete element (as read from an ndarray by integer indexing) -> cell."""
        if is_missing(x):
            return NA
        for k, v in enumerate(self.values):
            if _same_class(x, v):
                if k in self.twins:
                    if _same_repr(x, self.twins[k]) and not _same_repr(x, v):
                        return 2 * k + 1
                return 2 * k
        return ALIEN

    def alpha_seq(self, xs):
        return [self.alpha(x) for x in _elements(xs)]


def _elements(arr):
    """Elements of an ndarray by plain integer indexing on the base ndarray."""
    a = np.asarray(arr)
    if a.ndim != 1:
        return [ALIEN_OBJ]
    return [a[i] for i in range(a.shape[0])]


class _AlienObj:
    pass


ALIEN_OBJ = _AlienObj()


def is_missing(x):
    """NA by documented representation: None, NaN, NaT, ''."""
    if x is None:
        return True
    if isinstance(x, (float, np.floating)):
        return math.isnan(x)
    if isinstance(x, (np.datetime64, np.timedelta64)):
        return bool(np.isnat(x))
    if isinstance(x, str):
        return x == ""
    return False


def _norm(x):
    """Bring NumPy scalars to Python values with an ordinary == ."""
    if isinstance(x, np.datetime64):
        # compare datetimes as (unit-independent) microsecond instants where possible; nanosecond values keep their
        # own resolution (a value that lost its sub-microsecond part is another value)
        if np.datetime_data(x.dtype)[0] == "ns" and not np.isnat(x) and x.astype("int64").item() % 1000:
            return ("dt-ns", x.astype("int64").item())
        try:
            return ("dt", x.astype("datetime64[us]").astype("int64").item())
        except Exception:
            return ("dt?", str(x))
    if isinstance(x, np.timedelta64):
        return ("td", x.astype("timedelta64[us]").astype("int64").item())
    if isinstance(x, _dt.datetime):
        return _norm(np.datetime64(x, "us"))
    if isinstance(x, _dt.date):
        return _norm(np.datetime64(x, "D"))
    if isinstance(x, _dt.timedelta):
        return _norm(np.timedelta64(x, "us"))
    if isinstance(x, np.generic):
        return x.item()
    return x


def _same_class(x, v):
    if x is ALIEN_OBJ:
        return False
    a, b = _norm(x), _norm(v)
    if isinstance(a, tuple) != isinstance(b, tuple):
        return False
    if isinstance(a, (str, bytes)) != isinstance(b, (str, bytes)):
        return False
    try:
        return bool(a == b)
    except Exception:
        return False


def _same_repr(x, v):
    a, b = _norm(x), _norm(v)
    if isinstance(a, float) and isinstance(b, float):
        return struct.pack("<d", a) == struct.pack("<d", b)
    if isinstance(a, float) or isinstance(b, float):
        # int vs float representation of one number
        return type(a) is type(b)
    return type(a) is type(b) and a == b


D = _dt.date
DT = _dt.datetime

FLOAT_INF = Palette("float/inf", "float", [-math.inf, 0.0, 2.5, math.inf], twins={1: -0.0}, na=math.nan, full_dtype=float)
FLOAT_BIG = Palette("float/2^53", "float", [-2.0**53 - 2, -2.0**53, 1e-300, 2.0**53 + 2], na=math.nan, full_dtype=float)
FLOAT_HUGE = Palette("float/1e308", "float", [-1e308, -1.0, 1.0, 1e308], na=math.nan, full_dtype=float)
INT_SMALL = Palette("int/small", "int", [-3, 0, 7, 9], na=None, full_dtype=float)  # NA makes it float
# 2**53 and 2**53 + 1 are distinct integers that collapse to one float64; -2**63 is the value negation cannot handle
INT_BIG = Palette("int/2^63", "int", [-2**63, 2**53, 2**53 + 1, 2**63 - 1], has_na=False, full_dtype=int)
# values whose Python hashes collide pairwise: hash(-1) == hash(-2), hash(0) == hash(2**61 - 1), hash(inf) == 314159
INT_HASH = Palette("int/hash-collide", "int", [-2, -1, 0, 2**61 - 1], has_na=False, full_dtype=int)
FLOAT_HASH = Palette("float/hash-collide", "float", [-math.inf, -314159.0, 314159.0, math.inf], na=math.nan, full_dtype=float)
UINT8 = Palette("uint8", "int", [0, 1, 200, 255], has_na=False, dtype="uint8", as_array=True)
STR_SHORT = Palette("str/short", "str", ["A", "a", "ab", "é"], na="", full_dtype=str)
STR_LONG = Palette("str/long", "str", [LONG + "A", LONG + "a", LONG + "ab", LONG + "é"], na="", full_dtype=str)
STR_MIXED = Palette("str/mixed", "str", ["A", "a", "ab" + LONG, "b"], na="", full_dtype=str)
STR_FIXED = Palette("str/fixedU", "str", ["A", "a", "ab", "é"], na="", as_array=True, full_dtype="U2")
STR_ASTRAL = Palette("str/astral", "str", ["a", "￿", "￿a", "\U0001F600"], na="", full_dtype=str)
BOOL = Palette("bool", "bool", [False, True], has_na=False, full_dtype=bool)
BOOL_OBJ = Palette("bool/obj", "obj", [False, True], na=None, orderable=False, full_dtype=object)
DATE = Palette("date", "date", [D(1, 1, 1), D(1969, 12, 31), D(1970, 1, 1), D(9999, 12, 31)], na=None, full_dtype="datetime64[D]")
DATETIME = Palette("datetime", "datetime",
                   [DT(1, 1, 1), DT(1969, 12, 31, 23, 59, 59, 999999), DT(1970, 1, 1), DT(9999, 12, 31, 23, 59, 59)],
                   na=None, full_dtype="datetime64[us]")
# nanosecond resolution (what the CSV / Parquet readers produce for timestamps); NumPy turns these into integers in tolist()
DATETIME_NS = Palette("datetime/ns", "datetime",
                      [np.datetime64("1700-01-01T00:00:00", "ns"), np.datetime64("1969-12-31T23:59:59.999999", "ns"),
                       np.datetime64("1970-01-01T00:00:00", "ns"), np.datetime64("2262-01-01T00:00:00", "ns")],
                      na=np.datetime64("NaT"), as_array=True, full_dtype="datetime64[ns]")
# four instants inside one microsecond
DATETIME_NS_FINE = Palette("datetime/ns-fine", "datetime",
                           [np.datetime64("2000-01-01T00:00:00.000000001", "ns"), np.datetime64("2000-01-01T00:00:00.000000002", "ns"),
                            np.datetime64("2000-01-01T00:00:00.000000500", "ns"), np.datetime64("2000-01-01T00:00:00.000000999", "ns")],
                           na=np.datetime64("NaT"), as_array=True, full_dtype="datetime64[ns]")
TIMEDELTA = Palette("timedelta", "timedelta",
                    [np.timedelta64(-5, "s"), np.timedelta64(0, "s"), np.timedelta64(3, "s"), np.timedelta64(10**9, "s")],
                    na=np.timedelta64("NaT"), as_array=True, full_dtype="timedelta64[s]")
BYTES = Palette("bytes", "bytes", [b"A", b"a", b"ab", b"b"], has_na=False, full_dtype="S2")
# numbers in an object column: numeric order (-10 < 9 < 100 < 1000) differs from the order of their texts ("-10" < "100" < "1000" < "9"),
# already among the first three values (the quick tiers use three classes)
OBJ_INT = Palette("obj/int", "obj", [-10, 9, 100, 1000], na=None, dtype=object)

ALL = [FLOAT_INF, FLOAT_BIG, FLOAT_HUGE, FLOAT_HASH, INT_SMALL, INT_BIG, INT_HASH, UINT8, STR_SHORT, STR_LONG, STR_MIXED, STR_FIXED,
       STR_ASTRAL, BOOL, DATE, DATETIME, TIMEDELTA, BYTES, OBJ_INT]
BY_NAME = {p.name: p for p in ALL + [BOOL_OBJ, DATETIME_NS, DATETIME_NS_FINE]}


def render(x):
    """JSON-friendly rendering of a concrete value for samples / replay files."""
    if x is None:
        return None
    if isinstance(x, (np.datetime64, np.timedelta64)):
        return str(x)
    if isinstance(x, (float, np.floating)):
        if math.isnan(x):
            return "NaN"
        if math.isinf(x):
            return "inf" if x > 0 else "-inf"
        return repr(float(x))
    if isinstance(x, (bool, np.bool_)):
        return bool(x)
    if isinstance(x, (int, np.integer)):
        return int(x) if abs(int(x)) < 2**53 else str(int(x))
    if isinstance(x, bytes):
        return "b" + repr(x)[1:]
    if isinstance(x, str):
        return x if len(x) < 20 else x[:3] + "…(%d chars)…" % len(x) + x[-3:]
    return str(x)
