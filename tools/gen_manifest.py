#!/usr/bin/env python3
"""Regenerates MANIFEST.json from the table below (keeps it schema-valid)."""
import json, os
HERE = os.path.dirname(os.path.dirname(os.path.abspath(__file__)))
props = [json.loads(l) for l in open(os.path.join(HERE, "properties.jsonl"))]

TRUST = ("TLC explores the bounded model exhaustively; the code is bound by executing every enumerated abstract case "
         "on the working tree through several concrete palettes and letting the TLA+ trace spec judge each observation. "
         "Trusted: TLC, the abstraction alpha (Python scalar ==, <, isnan, isnat), the stated bounds.")

FRAME_TECH = "TLA+ spec (Frame/FrameOps/GroupOps) + TLC exhaustive enumeration of frames x arguments + monitor-style trace validation of real DataFrame calls"
SM_TEXT = ("FrameSM.tla is a state machine over frame handles and a heap of column buffers (aliasing = two columns holding one buffer id); "
  "one Step operator gives the post-state of every public DataFrame operation, reusing the single-call modules for contents. FrameSMMC explores all "
  "interleavings of transforming calls, shallow copies, in-place assignment (broadcast / wrong lengths), deletion, colnames, group_by and element "
  "pokes to a small depth and checks WellFormed plus the action properties FreshResult, OperandsUntouched and PokeLocal. Seeded histories on real "
  "frames record after every call each frame's columns, cells, the memory-sharing partition of all live columns, grouping and attribute/key "
  "coherence, and are validated step by step by FrameSMTrace; pokes are really executed so an alias shows up as a change in another object. ")
ST_TEXT = ("Store.tla is a file-system state machine (path -> configuration, content id, compression); StoreMC enumerates every write->read behaviour over "
  "owner x format x suffix x separator x header x encoding x content class x {whole, restricted in every order, alias, dtype mapping} and 3-step interleavings "
  "(overwrites, two suffixes of one stem), checking ReallyCompressed and ReadAfterWrite on the model; behaviours are replayed in a temp directory and StoreTrace "
  "judges file existence, compression magic, column names/order, cells, dtype kinds, restriction = read-all-then-select, alias = method. ")
CHECKS = {
 "C20": dict(engine="Render",
   text="Render.tla has two layers: layout predicates over a parsed rendering (every name shown, every dtype label, min(nrow, max_rows) data rows per block, equal display width within a block, total stated exactly when rows are cut, zero columns -> empty string, no exception, object unchanged) and RenderMech, a transcription of to_string's column-batching loop, which TLC checks against the predicates for every width vector in the bound (each column in exactly one block, termination when a single column exceeds max_width). TLC's layouts are replayed with strings of exactly those display widths (narrow, CJK-wide, combining characters); seeded arbitrary DataFrames / Vectors / ListOfDicts / GeoJSON objects go through str / repr / to_string / print_ with random options and PRINT_* settings; the parsed output is judged by the RenderTrace monitor (mechanism disagreement is a NOTE only).",
   design="§3 C20", technique="TLA+ layout predicates + mechanism model (Render) checked by TLC + replay of enumerated layouts + monitor-style validation of parsed renderings"),
 "C19": dict(engine="Lift",
   text="Calendar.tla is an integer model of the proleptic Gregorian calendar (ordinal <-> civil date, weekday, ISO week, quarter) whose laws are model-checked by TLC (round trip, weekday succession, week number changes only on Mondays, Jan 4 in week 1, Dec 28 in the last week); Lift.tla states the lifting discipline (missing out exactly where missing in, element function elsewhere, proxy = module function, scalar = one-element vector, from_string inverts to_string). LiftMC enumerates every missing-value mask; the 11 extractors are judged against the Calendar model and Python's datetime on an edge-date palette over units D/s/ms/us, replace / to_string / from_string / 7 re functions / str proxies against Python's own datetime / re per element; judged by the LiftTrace monitor.",
   design="§3 C19", technique="TLA+ calendar model + lifting spec (TLC-checked laws, mask enumeration) + monitor-style trace validation"),
 "C18": dict(engine="GeoJSON",
   text="GeoJSON.tla states the read / write / re-read laws on abstract feature collections (ReadOK: one row per feature in order, a column per key occurring anywhere with missing where absent or null, geometries unchanged; MetaOK; WriteOK with absent = null; re-read equal). GeoJSONMC enumerates every collection of <= 2 features x 3 keys x {absent, null, v1, v2} x geometries; collections (with extra top-level members of hostile names and arbitrary JSON values, several indents, plain and .gz) are dumped with json.dump, read, written, parsed back with json.load and re-read; judged by the GeoJSONTrace monitor.",
   design="§3 C18", technique="TLA+ spec (GeoJSON) + TLC exhaustive enumeration of feature collections + monitor-style trace validation through real files"),
 "C13": dict(engine="Convert",
   text="Convert.tla states the boundary contract: one record per row, one field per column in order, the format's own null exactly at the missing positions and never a sentinel, and import(export) = identity on names, order, cells, missing mask and the dtype of bool/int/float/str columns with a value. ConvertMC enumerates every 2-column frame of 1-3 rows with every missing mask; each is converted through ListOfDicts, JSON text, pandas and Arrow for random kind assignments, the intermediate object being inspected with the foreign library's own API, and judged by the ConvertTrace monitor.",
   design="§3 C13", technique="TLA+ spec (Convert) + TLC exhaustive enumeration of frames/masks + monitor-style trace validation"),
 "C12": dict(engine="Store", text=ST_TEXT + "C12 owns write clauses and whole-file reads.", design="§3 C12",
   technique="TLA+ file-system machine (Store) enumerated by TLC + replay on real files + trace validation"),
 "C14": dict(engine="Store", text=ST_TEXT + "C14 owns reads with a restriction, an alias or a dtype/type mapping.", design="§3 C14",
   technique="TLA+ file-system machine (Store) enumerated by TLC + replay on real files + trace validation"),
 "C10": dict(engine="VectorCtor",
   text="VectorCtor.tla states the inference / missing-value laws over tag sequences (18 kinds of Python and NumPy scalars incl. None, NaN, NaT, empty string): the missing set, the inferred class and its missing representation, value preservation, and names the free points (NaT outside date-likes, strings mixed with non-stringifiable values, caller-chosen dtypes on foreign values). VectorCtorMC enumerates every tag sequence of length <= 3; each is built for real with and without explicit dtypes and two payload variants, observing dtype, is_na, tolist, rebuild-equal, na_dtype/na_value, drop_na, replace_na, and equal() matrices over pools of vectors (reflexive/symmetric/transitive judged in TLA+); judged by the VectorCtorTrace monitor.",
   design="§3 C10", technique="TLA+ spec (VectorCtor) + TLC exhaustive enumeration of tag sequences + monitor-style trace validation"),
 "C08": dict(engine="AggJit",
   text="AggJit.tla models the JIT state the statement quantifies over (kernel specialisations in memory, on-disk cache, cache on/off, process boundaries); layer 1 says a call's result does not depend on that state. AggJitMC enumerates every history of the bound (first-use orders x processes x cache settings) and predicts per call compile/load/reuse and - through the named deviation Broken() - the recorded order-dependence defect. A stratified subset (every kernel-class order, ordered helper pairs, 3-call/3-process histories) is replayed in fresh interpreters with a private cache directory; every call runs with USE_NUMBA on and off on identical data and the comparison is judged by AggJitTrace. Dispatcher statistics confirm which path ran (spec-drift NOTE otherwise).",
   design="§3 C08", technique="TLA+ history machine (AggJit) enumerated by TLC + replay of the histories in fresh subprocesses + monitor-style validation"),
 "C07": dict(engine="Agg",
   text="Agg.tla defines all 16 helpers over integer sequences with exact rationals (scaled by 144), the drop_na / propagation policy, the default table and the free points; AggMC enumerates every sequence in the bound and model-checks textbook cross-checks that do not reuse the definitions (min <= x <= max, mean*n = sum, quantile monotone with q=0/0.5/1 anchors, median splits, mode maximal, var >= 0 and ddof relation, defaults on empty input). Seeded (helper, kind, drop_na, ddof, index, q) draws are executed in the vector form and group-wise inside frames with interleaved groups on bool/int/float/date/str columns and judged by the AggTrace monitor.",
   design="§3 C07", technique="TLA+ spec (Agg, exact rational arithmetic) + TLC enumeration + monitor-style trace validation of real helper calls"),
 "C01": dict(engine="FrameSM", text=SM_TEXT + "C01 owns the clauses C01:* (rectangularity, broadcast rule, rejected length mismatch, stable column order, attribute/key coherence) and unexpected exceptions.",
   design="§3 C01", technique="TLA+ state machine (FrameSM) model-checked by TLC + trace validation of recorded call histories"),
 "C06": dict(engine="FrameSM", text=SM_TEXT + "C06 owns the clauses C06:* (operand changed, grouping changed, result shares memory with an operand, write visible through another object, group_by returns the receiver).",
   design="§3 C06", technique="TLA+ state machine with buffer heap (FrameSM) model-checked by TLC + trace validation incl. real in-place writes"),
 "C17": dict(engine="LoDSM",
   text="LoDSM.tla is a state machine over an item heap and list objects with share/deriv parent sets, must/may/must-not obsolete flags and a warned bit; one Step operator gives the post-state of every public method (reusing LoDOps/LoDJoin for contents). LoDSMMC explores it exhaustively (all interleavings of unary methods, editors, deepcopy, joins, + and extend on up to 3-4 lists) checking SharingConfined (dicts never shared outside a share-connected component, i.e. deep copies are isolated forever), non-modification and flag action properties. Seeded histories (arbitrary derivation trees) run on the real class are validated step by step by LoDSMTrace: every list's item identities, every item's contents, every _obsolete flag and the number of warning lines after every call.",
   design="§3 C17", technique="TLA+ state machine (LoDSM) model-checked by TLC + trace validation of recorded histories (monitor reusing the spec's Step)"),
 "C15": dict(engine="LoDOps",
   text="LoDOps.tla states the Python list/dict reference semantics of 25 ListOfDicts methods (filter forms, stable None-last sort, unique, key editing, list-like operations incl. insert clamping, slicing with negative/absent bounds) with a Supported predicate for the free points; LoDOpsMC enumerates every list of <= 3 ragged items and every boundary argument and model-checks the operators against declarative restatements; single calls and seeded 3-step chains are executed on the real class (result class / AttributeDict items observed) and judged by the LoDOpsTrace monitor, each chain step against the state observed before it.",
   design="§3 C15", technique="TLA+ spec (LoDOps) + TLC exhaustive enumeration + monitor-style trace validation of real calls and chains"),
 "C16": dict(engine="LoDJoin",
   text="LoDJoin.tla: first-match joins with plain equality (None matches None), FullJoinOK and AggOK predicates; LoDJoinMC model-checks the join relations on every pair of lists in the bound; seeded pairs are executed with five joins, same-name and renamed keys, a right-operand-unchanged observation after every join, and aggregate with a tag-recording function; judged by the LoDJoinTrace monitor.",
   design="§3 C16", technique="TLA+ spec (LoDJoin) + TLC exhaustive model check + monitor-style trace validation of real calls"),
 "C09": dict(engine="CombineOps",
   text="CombineOps.tla: rbind / select / unselect / rename / colnames / cbind / update / modify as constructive operators plus the Untouched and RbindRowsOK predicates; CombineOpsMC enumerates base frames, every argument record (all select orders, all injective rename maps and colnames assignments incl. permutations, scalar/vector/callable modify values, clashing/new/broadcast second operands, 2-3 rbind operands with overlapping, disjoint and empty column sets) and model-checks the product; cases are executed on the real DataFrame and judged by the CombineOpsTrace monitor.",
   design="§3 C09", technique="TLA+ spec (CombineOps) + TLC exhaustive enumeration + monitor-style trace validation of real calls"),
 "C05": dict(engine="JoinOps",
   text="JoinOps.tla: first-match left/inner/semi/anti joins (constructive) and the FullJoinOK predicate; JoinOpsMC model-checks LeftKeepsAll, SemiAntiPartition, InnerIsMatchedSubset, NAnevermatch on every pair of operand frames in the bound; seeded pairs (all empty/single-row combinations included) are executed with all five joins, same-name and renamed keys, mixed int/float key dtypes, nine payload dtypes for NA filling, and judged by the JoinOpsTrace monitor.",
   design="§3 C05", technique="TLA+ spec (JoinOps) + TLC exhaustive model check of the operand-pair space + monitor-style trace validation of real join calls"),
 "C02": dict(engine="FrameOps",
   text="FrameOpsMC enumerates every frame (two key columns + row id, <=3 rows) and every argument record (all masks, index vectors, n, key subsets, column=value pairs) and model-checks the constructive subset operators against independent declarative restatements; the enumerated cases are executed on the real DataFrame on random pairs of 17 dtype palettes (float with inf/-0.0/2^53, long/short/fixed-width/astral strings, dates, object...) and every result is judged by the FrameOpsTrace monitor through the row-id column.",
   design="§3 C02", technique=FRAME_TECH),
 "C03": dict(engine="FrameOps",
   text="Same machine with Which=sort: all 1-2 key selections x directions; the observed row permutation is judged by the recursive SortOK predicate (permutation, lexicographic key order, NA block placement per tie group with the descending side free, stability) - never compared with a single expected order.",
   design="§3 C03", technique=FRAME_TECH),
 "C04": dict(engine="GroupOps",
   text="GroupOps.tla: partition / one-row-per-key / ascending-NA-last / original-order predicates, model-checked against the constructive Groups operator; every frame x group-column tuple is executed through aggregate (row-id recording lambda), count, split, grouped modify and a shorthand-helper-vs-lambda pair and judged by the GroupOpsTrace monitor.",
   design="§3 C04", technique=FRAME_TECH),
 "C11": dict(engine="VectorOps",
   text="Bounded model checking of the layer-1 sort/rank/unique operators (VectorOps.tla) over every cell sequence in the bound, "
        "plus conformance: every enumerated sequence is run through the real Vector.sort/rank/unique on 16 dtype palettes and each "
        "result is judged by the VectorOpsTrace monitor. A for-all-inputs property over small ordered structures: small-scope exhaustive is the right level.",
   design="§3 C11", technique="TLA+ spec (VectorOps) + TLC exhaustive enumeration + monitor-style trace validation of real calls"),
}
ENGINES = [
 dict(name="Render", path="spec/Render.tla", serves_properties=["C20"], kind_free_text="TLA+ layout predicates + RenderMech + RenderMC + RenderTrace"),
 dict(name="Lift", path="spec/Lift.tla", serves_properties=["C19"], kind_free_text="TLA+ Calendar + Lift + CalendarMC/LiftMC + LiftTrace"),
 dict(name="GeoJSON", path="spec/GeoJSON.tla", serves_properties=["C18"], kind_free_text="TLA+ read/write laws + GeoJSONMC + GeoJSONTrace"),
 dict(name="Convert", path="spec/Convert.tla", serves_properties=["C13"], kind_free_text="TLA+ boundary contract + ConvertMC + ConvertTrace"),
 dict(name="Store", path="spec/Store.tla", serves_properties=["C12", "C14"], kind_free_text="TLA+ file-system machine (owners df/lod/geo, six formats x four suffixes x three encodings, foreign files, restrictions, dtype mappings, aliases) + StoreMC (behaviours) + StoreTrace"),
 dict(name="VectorCtor", path="spec/VectorCtor.tla", serves_properties=["C10"], kind_free_text="TLA+ construction/NA laws + VectorCtorMC + VectorCtorTrace monitor (TLC)"),
 dict(name="AggJit", path="spec/AggJit.tla", serves_properties=["C08"], kind_free_text="TLA+ JIT-state history machine + AggJitMC + AggJitTrace; harness/jit_runner.py subprocess executor"),
 dict(name="Agg", path="spec/Agg.tla", serves_properties=["C07"], kind_free_text="TLA+ helper definitions + AggMC + AggTrace monitor (TLC)"),
 dict(name="FrameSM", path="spec/FrameSM.tla", serves_properties=["C01", "C06"], kind_free_text="TLA+ session machine with buffer heap (transforming calls, in-place edits through every dict route, constructor, observers) + FrameSMMC (exhaustive, action properties) + FrameSMGen (behaviours replayed) + FrameSMTrace (history validation)"),
 dict(name="LoDSM", path="spec/LoDSM.tla", serves_properties=["C17", "C15"], kind_free_text="TLA+ session machine (item heap, share/deriv parents, flags, readers, poke + heap numbers) + LoDSMMC (exhaustive) + LoDSMGen (behaviours replayed on the class) + LoDSMTrace (history validation) + ObsMech (layer 2)"),
 dict(name="VectorMisc", path="spec/VectorMisc.tla", serves_properties=["C11"], kind_free_text="beyond the listed properties: head/tail/drop_na/range/equal/concat/tolist/sample/map laws (VectorMiscMC) + VectorMiscTrace; a NOTE-only section of the C11 check"),
 dict(name="Compare", path="spec/Compare.tla", serves_properties=["C05"], kind_free_text="beyond the listed properties: DataFrame.compare stated with the join operators (CompareMC laws) + CompareTrace; a NOTE-only section of the C05 check"),
 dict(name="LoDOps", path="spec/LoDOps.tla", serves_properties=["C15"], kind_free_text="TLA+ LoDOps reference semantics + LoDOpsMC + LoDOpsTrace monitor (TLC)"),
 dict(name="LoDJoin", path="spec/LoDJoin.tla", serves_properties=["C16"], kind_free_text="TLA+ LoDJoin predicates + LoDJoinMC + LoDJoinTrace monitor (TLC)"),
 dict(name="CombineOps", path="spec/CombineOps.tla", serves_properties=["C09"], kind_free_text="TLA+ CombineOps operators/predicates + CombineOpsMC + CombineOpsTrace monitor (TLC)"),
 dict(name="JoinOps", path="spec/JoinOps.tla", serves_properties=["C05"], kind_free_text="TLA+ JoinOps operators/predicates + JoinOpsMC + JoinOpsTrace monitor (TLC)"),
 dict(name="FrameOps", path="spec/FrameOps.tla", serves_properties=["C02", "C03"], kind_free_text="TLA+ Frame/FrameOps operators + FrameOpsMC generator + FrameOpsTrace monitor (TLC)"),
 dict(name="GroupOps", path="spec/GroupOps.tla", serves_properties=["C04"], kind_free_text="TLA+ GroupOps predicates + FrameOpsMC(Which=group) + GroupOpsTrace monitor (TLC)"),
 dict(name="VectorOps", path="spec/VectorOps.tla", serves_properties=["C11"], kind_free_text="TLA+ operators/predicates + VectorOpsMC generator + VectorOpsTrace monitor (TLC)"),
]
PENDING_REASON = "check not built yet in this session (work in progress; the property will be claimed once its TLA+-based check passes on the unchanged tree)"

m = {
 "version": 1,
 "setup_cmd": "./setup.sh",
 "hooks": {"guard": "DATAITER_VERIF",
           "enable": "no in-repo hooks are needed: checks import /repo's working tree through the editable install in /venv and observe it through the public API",
           "baseline_off_cmd": "cd /repo && /venv/bin/python -m pytest -ra -q -p no:cacheprovider --timeout=900 --continue-on-collection-errors",
           "source_commits": [], "add_only": True},
 "engines": [e for e in ENGINES if any(p in CHECKS for p in e["serves_properties"])],
 "checks": [],
 "notes": "All checks: ./check <ID> --tier quick|thorough; replay with ./check <ID> --replay <file>. known_findings.json lists fixed/known defects.",
 "not_applicable": [],
}
for p in props:
    pid = p["id"]
    if pid in CHECKS:
        c = CHECKS[pid]
        m["checks"].append({
            "property_id": pid,
            "quick_cmd": f"./check {pid} --tier quick",
            "thorough_cmd": f"./check {pid} --tier thorough",
            "evidence_file": f"evidence/{pid}.json",
            "replay_cmd_template": f"./check {pid} --replay {{path}}",
            "engine": c["engine"],
            "level_claimed": {"category": "model_checking", "text": c["text"], "design_ref": c["design"]},
            "level_note": c.get("note", TRUST),
            "technique": c["technique"],
        })
    else:
        m["not_applicable"].append({"property_id": pid, "reason": PENDING_REASON})
json.dump(m, open(os.path.join(HERE, "MANIFEST.json"), "w"), indent=1)
print("claimed:", [c["property_id"] for c in m["checks"]])
