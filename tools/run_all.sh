#!/bin/sh
# Runs the quick (or $1) tier of every claimed check; prints exit code and wall time for each.
cd "$(dirname "$0")/.." || exit 2
tier=${1:-quick}
for id in $(python3 -c "import json;print(' '.join(c['property_id'] for c in json.load(open('MANIFEST.json'))['checks']))"); do
  s=$(date +%s)
  timeout ${RUNALL_TIMEOUT:-7200} ./check $id --tier $tier > /tmp/verif-runall-$id.log 2>&1
  rc=$?
  e=$(date +%s)
  echo "$id rc=$rc $((e-s))s $(grep -c '^VIOLATION' /tmp/verif-runall-$id.log) violations $(grep -c '^KNOWN-FINDING' /tmp/verif-runall-$id.log) known"
done
