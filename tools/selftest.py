#!/venv/bin/python
"""Corrupted-trace self-test: for every trace specification, an accepted record must be accepted and each
single-field corruption of it must be rejected with the expected clause.  Exit 0 iff all expectations hold.
(Demonstrates that the monitors constrain the observations - not just their length - and guards against vacuity.)"""
import copy
import os
import sys

sys.path.insert(0, os.path.dirname(os.path.dirname(os.path.abspath(__file__))))
from harness import core  # noqa

FR = {"cols": ["k", "j", "r"], "cell": {"k": [2, -1, 0], "j": [0, 0, 2], "r": [0, 2, 4]}}


def frame(picks, base=FR):
    return {"cols": base["cols"], "cell": {c: [base["cell"][c][i] for i in picks] for c in base["cols"]}}


CASES = []


def case(module, name, rec, expect):
    CASES.append((module, name, rec, expect))


# VectorOps
ok = {"xs": [2, -1, 0, 2], "op": "sort", "dir": 1, "method": "", "out": [0, 2, 2, -1], "err": ""}
case("VectorOpsTrace", "sort accepted", ok, "")
case("VectorOpsTrace", "sort NA first", dict(ok, out=[-1, 0, 2, 2]), "sort:missing-not-last")
case("VectorOpsTrace", "sort value altered", dict(ok, out=[0, 2, 4, -1]), "sort:not-a-permutation")
case("VectorOpsTrace", "rank min off by one", {"xs": [2, 2, 0], "op": "rank", "dir": 0, "method": "min", "out": [2, 3, 1], "err": ""}, "rank:min")
case("VectorOpsTrace", "unique sorted order", {"xs": [2, 0, 2], "op": "unique", "dir": 0, "method": "", "out": [0, 2], "err": ""}, "unique:not-first-occurrence-order")
# FrameOps
a = {"op": "sort", "keys": ["k"], "dirs": [1]}
case("FrameOpsTrace", "sort accepted", {"fr": FR, "a": a, "out": frame([2, 0, 1]), "err": ""}, "")
case("FrameOpsTrace", "sort NA not last", {"fr": FR, "a": a, "out": frame([1, 2, 0]), "err": ""}, "sort:not-stable-key-order")
case("FrameOpsTrace", "row mixed from two rows", {"fr": FR, "a": a, "out": {"cols": FR["cols"], "cell": {"k": [0, 2, -1], "j": [0, 0, 0], "r": [4, 0, 2]}}, "err": ""},
     "sort:not-whole-input-rows")
f = {"op": "filter", "mask": [True, False, True]}
case("FrameOpsTrace", "filter accepted", {"fr": FR, "a": f, "out": frame([0, 2]), "err": ""}, "")
case("FrameOpsTrace", "filter kept the complement", {"fr": FR, "a": f, "out": frame([1]), "err": ""}, "filter:wrong-rows-kept")
case("FrameOpsTrace", "filter reordered", {"fr": FR, "a": f, "out": frame([2, 0]), "err": ""}, "filter:order-not-kept")
# GroupOps
g = {"fr": FR, "a": {"op": "aggregate", "by": ["j"]}, "keys": [[0], [2]], "groups": [[0, 2], [4]], "err": ""}
case("GroupOpsTrace", "aggregate accepted", g, "")
case("GroupOpsTrace", "group order swapped", dict(g, keys=[[2], [0]], groups=[[4], [0, 2]]), "aggregate:groups-not-ascending-NA-last")
case("GroupOpsTrace", "row in wrong group", dict(g, groups=[[0], [2, 4]]), "aggregate:row-summarised-under-wrong-key")
case("GroupOpsTrace", "rows in group out of order", dict(g, groups=[[2, 0], [4]]), "aggregate:group-rows-not-in-original-order")
# JoinOps
L = {"cols": ["k", "j", "r"], "cell": {"k": [0, -1], "j": [0, 0], "r": [0, 2]}}
R = {"cols": ["k", "y", "rr"], "cell": {"k": [0, 0], "y": [0, -1], "rr": [0, 2]}}
lj = {"cols": ["k", "j", "r", "y", "rr"], "cell": {"k": [0, -1], "j": [0, 0], "r": [0, 2], "y": [0, -1], "rr": [0, -1]}}
j = {"L": L, "R": R, "a": {"kind": "left", "by": ["k"], "renamed": False}, "out": lj, "err": ""}
case("JoinOpsTrace", "left_join accepted", j, "")
case("JoinOpsTrace", "last match instead of first", dict(j, out=dict(lj, cell=dict(lj["cell"], y=[-1, -1], rr=[2, -1]))), "left_join:not-first-match-or-missing")
case("JoinOpsTrace", "left row lost", dict(j, out={"cols": lj["cols"], "cell": {c: v[:1] for c, v in lj["cell"].items()}}), "left_join:left-rows-not-kept")
# LoDOps
l = [{"t": 0, "a": 1, "b": -1}, {"t": 1, "a": 0}]
case("LoDOpsTrace", "tail(0) accepted", {"l": l, "a": {"op": "tail", "n": 0}, "out": [], "cls": True, "err": ""}, "")
case("LoDOpsTrace", "tail(0) returns all", {"l": l, "a": {"op": "tail", "n": 0}, "out": l, "cls": True, "err": ""}, "tail:wrong-number-of-items")
case("LoDOpsTrace", "plain list returned", {"l": l, "a": {"op": "reverse"}, "out": l[::-1], "cls": False, "err": ""}, "reverse:result-not-a-ListOfDicts")
# LoDJoin: split
Ls = [{"lt": 0, "k": 0, "j": 0}, {"lt": 1, "k": 1, "j": 0}, {"lt": 2, "k": 0, "j": -1}]
sp = {"L": Ls, "R": [], "a": {"kind": "split", "by": ["k"]}, "out": [], "cls": True, "err": "", "keys": [], "groups": [[0, 2], [1]]}
case("LoDJoinTrace", "split accepted", sp, "")
case("LoDJoinTrace", "split groups in sorted, not first-appearance order", dict(sp, groups=[[1], [0, 2]]), "split:not-the-partition")
case("LoDJoinTrace", "split one key in two groups", dict(sp, groups=[[0], [1], [2]]), "split:not-the-partition")
case("LoDJoinTrace", "split loses a position", dict(sp, groups=[[0], [1]]), "split:not-the-partition")
# Agg
ag = {"h": "mean", "a": {"dropna": True, "ddof": 0, "idx": 0, "q4": 2}, "kind": "float", "xs": [1, -99, 3], "obs": {"t": "num", "v": 288, "sq": -1}, "err": ""}
case("AggTrace", "mean accepted", ag, "")
case("AggTrace", "mean counted the NA", dict(ag, obs={"t": "num", "v": 192, "sq": -1}), "mean:not-the-textbook-statistic")
case("AggTrace", "mean of empty not NaN", dict(ag, xs=[-99], obs={"t": "num", "v": 0, "sq": 0}), "mean:missing-value-policy-or-default-wrong")
# Convert
cv = {"fr": {"cols": ["a", "b"], "cell": {"a": [0, -1], "b": [2, 2]}}, "b": "arrow", "kinds": {"a": "str", "b": "int"}, "err": "",
      "inter": {"nrec": 2, "fields": ["a", "b"], "null": {"a": [False, True], "b": [False, False]}, "sentinel": {"a": [False, False], "b": [False, False]}},
      "back": {"cols": ["a", "b"], "cell": {"a": [0, -1], "b": [2, 2]}}, "kinds_back": {"a": "str", "b": "int"}}
case("ConvertTrace", "arrow accepted", cv, "")
c2 = copy.deepcopy(cv); c2["inter"]["null"]["a"] = [False, False]; c2["inter"]["sentinel"]["a"] = [False, True]
case("ConvertTrace", "NA crossed as sentinel", c2, "intermediate:null-not-exactly-at-missing-positions:arrow")
c3 = copy.deepcopy(cv); c3["kinds_back"]["a"] = "obj"
case("ConvertTrace", "string column came back object", c3, "roundtrip:dtype-of-column-changed:arrow")
# Lift
lf = {"k": "extract", "f": "isoweek", "err": "", "proxy_eq": True, "scalar_eq": True,
      "xs": [{"na": False, "ord": 737425, "sod": 0, "us": 0}, {"na": True, "ord": 0, "sod": 0, "us": 0}],       # 2020-01-01
      "out": [{"na": False, "v": 1}, {"na": True, "v": -1}], "eq": [True, True], "na": [], "out_na": [], "back_eq": []}
case("LiftTrace", "isoweek accepted", lf, "")
case("LiftTrace", "isoweek from %W-style numbering", dict(lf, out=[{"na": False, "v": 0}, {"na": True, "v": -1}]), "isoweek:not-the-calendar-value")
case("LiftTrace", "NA mask misaligned", dict(lf, out=[{"na": True, "v": -1}, {"na": False, "v": 1}]), "isoweek:missing-not-exactly-at-NaT")
# Render
rn = {"k": "frame", "how": "to_string", "err": "", "pure": True, "empty": False,
      "in": {"nrow": 5, "cols": ["a", "b"], "maxRows": 2, "maxWidth": 20},
      "obs": {"wellformed": True, "total": 5, "stray": False, "blocks": [{"lineW": [9, 9, 9, 9, 9], "names": ["a", "b"], "nlabels": 2, "dataRows": 2}]}}
case("RenderTrace", "rendering accepted", rn, "")
r2 = copy.deepcopy(rn); r2["obs"]["total"] = -1
case("RenderTrace", "total line missing", r2, "frame:total-row-count-not-stated")
r3 = copy.deepcopy(rn); r3["obs"]["blocks"][0]["lineW"][2] = 8
case("RenderTrace", "rule narrower than header", r3, "frame:lines-of-a-block-differ-in-display-width")
r4 = copy.deepcopy(rn); r4["pure"] = False
case("RenderTrace", "object changed", r4, "render:object-changed-by:to_string")
r5 = copy.deepcopy(rn); r5["obs"]["stray"] = True
case("RenderTrace", "carriage return left inside a line", r5, "frame:a-line-boundary-character")


def machine_cases():
    """Histories recorded from the real classes (Store, LoDSM), then one observed field corrupted."""
    import random
    from props import c12, c17
    out = []
    # Store: write csv.gz, read back restricted through the alias
    hist = [{"t": "write", "owner": "df", "fmt": "csv", "sep": ",", "header": True, "enc": "utf-8", "stem": "p", "suffix": ".gz", "c": 1, "ext": False},
            {"t": "read", "owner": "df", "fmt": "csv", "sep": ",", "header": True, "enc": "utf-8", "stem": "p", "suffix": ".gz",
             "cols": ["c", "a"], "alias": True, "cast": "", "expect": 1}]
    tr = c12.run_behaviour(hist)
    variants = [("write+restricted read accepted", tr, "")]
    t2 = copy.deepcopy(tr); t2["steps"][0]["obs"]["magic"] = "none"
    variants.append(("file not compressed", t2, "write:not-really-compressed"))
    t3 = copy.deepcopy(tr); c = t3["steps"][1]["obs"]["frame"]["cell"]; c["a"], c["c"] = c["c"], c["a"]
    variants.append(("values under each other's names", t3, "read:restricted-read-differs"))
    t4 = copy.deepcopy(tr); t4["steps"][1]["obs"]["alias_same"] = False
    variants.append(("alias differs", t4, "read:module-level-alias-differs"))
    t5 = copy.deepcopy(tr); t5["steps"][1]["obs"]["frame"]["cell"]["a"][1] = -1
    variants.append(("a value became missing", t5, "read:restricted-read-differs"))
    ctx = core.Ctx("SELFTEST", "quick", 0)
    bad = {(ti, st): cl for ti, st, cl in c12.validate(ctx, [v[1] for v in variants])}
    for i, (name, _, exp) in enumerate(variants):
        got = "; ".join(cl for (ti, st), cl in sorted(bad.items()) if ti == i)
        out.append(("StoreTrace", name, got, exp))
    # LoDSM: filter -> modify (editor) -> keys -> deepcopy -> poke
    s = c17.Session([{"a": 0, "b": -1}, {"a": 1, "b": 1}], nested=True)
    tr = {"init": {"items": [c17.to_abs_nested(x) for x in s.keep], "lists": [[1, 2]]}, "nested": True, "steps": []}
    for e in ({"x": 1, "o": 0, "a": {"op": "filter", "p": {"f": "true"}}},
              {"x": 2, "o": 0, "a": {"op": "modify", "k": "x", "g": {"f": "const", "v": 1}}},
              {"x": 3, "o": 0, "a": {"op": "keys"}},
              {"x": 3, "o": 0, "a": {"op": "deepcopy"}},
              {"x": 4, "o": 0, "a": {"op": "poke", "i": 1, "v": 0}}):
        e["obs"] = s.step(e)
        tr["steps"].append(e)
    variants = [("history accepted", tr, "")]
    t2 = copy.deepcopy(tr); t2["steps"][1]["obs"]["lists"][0]["ob"] = False
    variants.append(("ancestor not flagged obsolete", t2, "SM:must-report-obsolete-but-does-not"))
    t3 = copy.deepcopy(tr); t3["steps"][2]["obs"]["ret"] = ["a", "b"]
    variants.append(("keys() misses a key", t3, "SM:reader-result-not-a-function"))
    t4 = copy.deepcopy(tr); t4["steps"][4]["obs"]["items"][1]["b"] = 0
    variants.append(("poke into the copy seen in the original", t4, "SM:assignment-into-one-item-observable-through-an-item-of-another-heap"))
    t5 = copy.deepcopy(tr); t5["steps"][0]["obs"]["items"][0]["a"] = 1
    variants.append(("filter changed an item", t5, "SM:non-modifying-method-changed-an-item"))
    t6 = copy.deepcopy(tr); t6["steps"][2]["obs"]["warn"] = 1
    variants.append(("spurious warning", t6, "SM:warning-not-printed-exactly-once"))
    ctx = core.Ctx("SELFTEST", "quick", 0)
    bad = {}
    for ti, st, cl in c17.ctx_validate_traces(ctx, [v[1] for v in variants]):
        bad.setdefault(ti, []).append(cl)
    for i, (name, _, exp) in enumerate(variants):
        out.append(("LoDSMTrace", name, (bad.get(i) or [""])[0], exp))
    # Compare (beyond the listed properties)
    from props import compare
    from harness import gamma
    X = compare.frame_abs([0, 2, 4], [0, 2, -1])
    Y = compare.frame_abs([2, 6, 0], [4, 0, 0])
    rec = compare.execute(X, Y, gamma.STR_SHORT, gamma.FLOAT_INF)
    variants = [("compare accepted", rec, "")]
    r2 = copy.deepcopy(rec); r2["changed"][0]["y"] = 2
    variants.append(("changed value misreported", r2, "compare:changed-is-not-one-row"))
    r3 = copy.deepcopy(rec); r3["added"]["cell"]["k"] = [2]
    variants.append(("added names a matched row", r3, "compare:added-is-not"))
    r4 = copy.deepcopy(rec); r4["removedNone"] = True
    variants.append(("removed missing", r4, "compare:removed-is-not"))
    ctx = core.Ctx("SELFTEST", "quick", 0)
    bad = dict(ctx.validate("CompareTrace", [v[1] for v in variants]))
    for i, (name, _, exp) in enumerate(variants):
        out.append(("CompareTrace", name, bad.get(i, ""), exp))
    return out


def main():
    by_mod = {}
    for m, name, rec, exp in CASES:
        by_mod.setdefault(m, []).append((name, rec, exp))
    failures = 0
    for m, items in by_mod.items():
        ctx = core.Ctx("SELFTEST", "quick", 0)
        bad = dict(ctx.validate(m, [rec for _, rec, _ in items]))
        for i, (name, rec, exp) in enumerate(items):
            got = bad.get(i, "")
            good = (got == "" and exp == "") or (exp != "" and got.startswith(exp))
            print("%-16s %-40s %s  (%s)" % (m, name, "ok" if good else "UNEXPECTED", got or "accepted"))
            failures += 0 if good else 1
    extra = machine_cases()
    for m, name, got, exp in extra:
        good = (got == "" and exp == "") or (exp != "" and got.startswith(exp))
        print("%-16s %-40s %s  (%s)" % (m, name, "ok" if good else "UNEXPECTED", got or "accepted"))
        failures += 0 if good else 1
    print("selftest:", len(CASES) + len(extra), "cases,", failures, "unexpected")
    return 1 if failures else 0


if __name__ == "__main__":
    sys.exit(main())
