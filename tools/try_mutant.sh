#!/bin/sh
# usage: tools/try_mutant.sh <patch.diff> <ID> [<ID>...]   -- applies the patch to /repo, runs the quick checks, reverts.
patch=$1; shift
cd /repo || exit 2
if ! git diff --quiet; then echo "/repo has uncommitted changes; refusing"; exit 2; fi
git apply "$patch" || { echo "patch does not apply"; exit 2; }
for id in "$@"; do
  s=$(date +%s)
  /verif/check $id --tier ${TIER:-quick} > /tmp/verif-mut-$id.log 2>&1
  rc=$?
  e=$(date +%s)
  echo "  $id rc=$rc $((e-s))s  $(grep -A1 '^VIOLATION' /tmp/verif-mut-$id.log | grep clause | sed 's/ sig=.*//' | sort | uniq -c | head -4 | tr '\n' ';')"
done
git -C /repo checkout -- .
