#!/usr/bin/env python3
"""Applies every seeded change to its own scratch copy of the repository (never /repo itself) and runs the quick
checks recorded as detecting it, a few changes at a time.  Prints one line per change and writes seeded/SWEEP.md.

usage: tools/sweep_mutants.py [--base /repo] [--tier quick] [--jobs 4] [--only SUBSTR] [--all-checks]
"""
import argparse
import concurrent.futures
import json
import os
import re
import shutil
import subprocess
import tempfile

HERE = os.path.dirname(os.path.dirname(os.path.abspath(__file__)))


def one(name, base, tier, all_checks):
    d = os.path.join(HERE, "seeded", name)
    meta = json.load(open(os.path.join(d, "meta.json")))
    ids = meta["detected_by_quick_checks"]
    if all_checks:
        ids = ["C%02d" % i for i in range(1, 21)]
    work = tempfile.mkdtemp(prefix="verif-sweep-")
    try:
        repo = os.path.join(work, "repo")
        os.makedirs(repo)
        tar = subprocess.Popen(["git", "-C", base, "archive", "HEAD"], stdout=subprocess.PIPE)
        subprocess.run(["tar", "-x", "-C", repo], stdin=tar.stdout, check=True)
        tar.wait()
        subprocess.run(["git", "init", "-q", "."], cwd=repo, check=True)
        p = subprocess.run(["git", "apply", os.path.join(d, "patch.diff")], cwd=repo, stderr=subprocess.PIPE, text=True)
        if p.returncode != 0:
            return name, "DOES-NOT-APPLY", {}, {}
        rcs, clauses = {}, {}
        for cid in ids:
            env = dict(os.environ, VERIF_REPO=repo, VERIF_NO_EVIDENCE="1")
            r = subprocess.run([os.path.join(HERE, "check"), cid, "--tier", tier], stdout=subprocess.PIPE,
                               stderr=subprocess.STDOUT, text=True, env=env)
            rcs[cid] = r.returncode
            cl = sorted(set(re.findall(r"^\s+clause=(\S+)", r.stdout, re.M)))
            clauses[cid] = cl
        verdict = "DETECTED" if any(rc == 1 for rc in rcs.values()) else "MISSED"
        return name, verdict, rcs, clauses
    finally:
        shutil.rmtree(work, ignore_errors=True)


def main():
    ap = argparse.ArgumentParser()
    ap.add_argument("--base", default="/repo")
    ap.add_argument("--tier", default="quick")
    ap.add_argument("--jobs", type=int, default=4)
    ap.add_argument("--only", default="")
    ap.add_argument("--all-checks", action="store_true")
    ap.add_argument("--no-table", action="store_true", help="do not touch seeded/SWEEP.md (e.g. a sweep under another VERIF_SEED)")
    ap.add_argument("--update-meta", action="store_true", help="write the failing clauses seen into seeded/<id>/meta.json")
    a = ap.parse_args()
    names = sorted(n for n in os.listdir(os.path.join(HERE, "seeded"))
                   if os.path.isdir(os.path.join(HERE, "seeded", n)) and a.only in n)
    rows = []
    with concurrent.futures.ThreadPoolExecutor(a.jobs) as ex:
        for name, verdict, rcs, clauses in ex.map(lambda n: one(n, a.base, a.tier, a.all_checks), names):
            print("MUTANT %s: %s (%s)" % (name, verdict, " ".join("%s:rc=%d" % kv for kv in sorted(rcs.items()))), flush=True)
            rows.append((name, verdict, rcs, clauses))
            if a.update_meta and verdict == "DETECTED":
                mp = os.path.join(HERE, "seeded", name, "meta.json")
                meta = json.load(open(mp))
                meta["detected_by_quick_checks"] = sorted(c for c, rc in rcs.items() if rc == 1)
                meta["failing_clauses"] = sorted({c + ": " + x for c, xs in clauses.items() for x in xs if rcs[c] == 1})
                json.dump(meta, open(mp, "w"), indent=1)
    head = subprocess.check_output(["git", "-C", a.base, "rev-parse", "--short", "HEAD"], text=True).strip()
    path = os.path.join(HERE, "seeded", "SWEEP.md")
    table = {}
    if a.only and os.path.exists(path):         # a partial sweep replaces only its own rows
        for line in open(path):
            if line.startswith("| ") and not line.startswith("| change") and not line.startswith("|---"):
                table[line.split("|")[1].strip()] = line
    for name, verdict, rcs, clauses in rows:
        cl = "; ".join(sorted({x for c, xs in clauses.items() for x in xs}))[:300]
        table[name] = "| %s | %s | %s | %s |\n" % (name, verdict, " ".join("%s=%d" % kv for kv in sorted(rcs.items())), cl)
    if a.no_table:
        path = os.devnull
    with open(path, "w") as f:
        f.write("# Seeded changes against the %s checks (repository HEAD %s at the last sweep)\n\n" % (a.tier, head))
        f.write("| change | verdict | checks (exit code) | failing clauses |\n|---|---|---|---|\n")
        for name in sorted(table):
            f.write(table[name])
    missed = [r[0] for r in rows if r[1] != "DETECTED"]
    print("%d changes, %d detected, not detected: %s" % (len(rows), len(rows) - len(missed), missed or "none"))


if __name__ == "__main__":
    main()
