#!/bin/sh
# usage: confirm_mutant.sh <worktree> <mutant-dir>  -> prints CONFIRMED / REJECTED with reasons
wt=$1; md=$2
cd "$wt" || exit 2
git checkout -q -- . 
git apply "$md/patch.diff" || { echo "REJECTED $md: patch does not apply"; exit 1; }
# (the Numba on-disk cache lives next to the sources; an earlier partial run can leave kernels there that make
#  mode tests fail on a clean tree - KF-C08-optional-order - so start every suite run from an empty cache)
rm -f dataiter/__pycache__/*.nbi dataiter/__pycache__/*.nbc
out=$(/venv/bin/python -m pytest -q -p no:cacheprovider --timeout=900 dataiter 2>&1 | tail -12)
nfail=$(echo "$out" | grep -c '^FAILED')
other=$(echo "$out" | grep '^FAILED' | grep -v -e test_read_json_columns -e test_read_json_dtypes -e test_read_json_path -e 'test_list_of_dicts' | wc -l)
PYTHONPATH=$wt /venv/bin/python "$md/demo.py" >/dev/null 2>&1; with=$?
git checkout -q -- .
PYTHONPATH=$wt /venv/bin/python "$md/demo.py" >/dev/null 2>&1; without=$?
if [ "$other" = "0" ] && [ "$with" != "0" ] && [ "$without" = "0" ]; then
  echo "CONFIRMED $md: tests_failed=$nfail(known only) demo_with_patch=$with demo_without=$without"
else
  echo "REJECTED $md: failed=$nfail other_failures=$other demo_with_patch=$with demo_without=$without"; echo "$out" | grep FAILED | head
fi
