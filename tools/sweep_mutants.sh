#!/bin/sh
# Applies every seeded mutant to a scratch copy of the repository (never /repo itself) and runs the checks that are
# recorded as detecting it; prints one line per mutant.  usage: tools/sweep_mutants.sh [base-repo-dir] [tier]
here="$(cd "$(dirname "$0")/.." && pwd)"
base=${1:-/repo}
tier=${2:-quick}
work=$(mktemp -d /tmp/verif-sweep-XXXXXX)
for d in "$here"/seeded/*/; do
  name=$(basename "$d")
  ids=$(python3 -c "import json;print(' '.join(json.load(open('$d/meta.json'))['detected_by_quick_checks']))")
  rm -rf "$work/repo"; mkdir -p "$work/repo"
  git -C "$base" archive HEAD | tar -x -C "$work/repo"
  if ! (cd "$work/repo" && git init -q . && git apply "$d/patch.diff") 2>/dev/null; then
    echo "MUTANT $name: patch does not apply to $(git -C "$base" rev-parse --short HEAD)"; continue
  fi
  res=""
  for id in $ids; do
    VERIF_REPO="$work/repo" "$here/check" $id --tier $tier > "$work/log" 2>&1
    rc=$?
    res="$res $id:rc=$rc"
  done
  case "$res" in *rc=1*) echo "MUTANT $name: DETECTED ($res )";; *) echo "MUTANT $name: MISSED ($res )";; esac
done
rm -rf "$work"
