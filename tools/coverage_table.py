#!/usr/bin/env python3
"""Prints a markdown table of what the last run of every check covered (from evidence/*.json)."""
import glob
import json
import os

HERE = os.path.dirname(os.path.dirname(os.path.abspath(__file__)))
print("| property | tier | TLC runs (modules) | distinct states | executions judged by a trace spec | evaluations | non-trivial | known findings hit | wall s |")
print("|---|---|---|---|---|---|---|---|---|")
for f in sorted(glob.glob(os.path.join(HERE, "evidence", "C*.json"))):
    e = json.load(open(f))
    c = e["coverage"]
    mods = sorted({r["module"] for r in c.get("tlc_runs", [])})
    print("| %s | %s | %d (%s) | %d | %d | %d | %d | %s | %s |" % (
        e["property_id"], e["tier"], len(c.get("tlc_runs", [])), ", ".join(mods), c.get("states", 0),
        c.get("traces_validated_against_impl", 0), c.get("evaluations", 0), c.get("distinct_nontrivial", 0),
        ", ".join("%s x%d" % kv for kv in sorted(c.get("known_findings_hit", {}).items())) or "-", e.get("wall_s")))
