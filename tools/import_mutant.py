#!/usr/bin/env python3
"""usage: import_mutant.py <src-mutant-dir> <seeded-id> <property> <caught-by (comma list)> <clauses> """
import json, os, shutil, sys
src, sid, prop, caught, clauses = sys.argv[1:6]
dst = f"/verif/seeded/{sid}"
os.makedirs(dst, exist_ok=True)
shutil.copy(os.path.join(src, "patch.diff"), dst)
shutil.copy(os.path.join(src, "demo.py"), dst)
notes = open(os.path.join(src, "notes.md")).read()
meta = {"id": sid, "breaks_property": prop, "needs_to_manifest": notes,
        "written_by": "independent sub-agent given only the property text and a scratch worktree",
        "confirmed": ["patch applies to /repo HEAD (git apply)",
                      "existing test suite: only the 7 known zero-byte-fixture failures",
                      "demo.py exits 1 with the patch and 0 without (tools/confirm_mutant.sh in the scratch worktree)"],
        "detected_by_quick_checks": caught.split(","), "failing_clauses": clauses.split(";"),
        "how_run": "tools/try_mutant.sh seeded/%s/patch.diff %s  (git apply to /repo, ./check <ID> --tier quick, git checkout -- .)" % (sid, " ".join(caught.split(",")))}
json.dump(meta, open(os.path.join(dst, "meta.json"), "w"), indent=1)
print("imported", sid)
